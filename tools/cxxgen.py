"""Generates the per-description C++ conformance driver (C++ has no reflection).

Inputs: the value schema printed by TLC (spec/MC_Vectors.tla TypeSchema), the inheritance chain of the
description (data) and the freshly generated header (parsed only for constructor parameter lists and getter
names).  The driver reads one request per line and prints one JSON line per request:

    <rid> P <Type> <hex bytes>        create the view chain, print validity and every getter
    <rid> B <Type> <ints...>          construct the builder from a flattened value, print bytes and GetSize()

Values are flattened by `flatten` below with exactly the same schema the generated reader uses.
No PDL semantics: data movement between JSON and a statically typed API."""
import re

PRELUDE = r'''
#include <cstdio>
#include <cstdint>
#include <cstdlib>
#include <iostream>
#include <memory>
#include <optional>
#include <sstream>
#include <string>
#include <type_traits>
#include <vector>
#include <array>
#include "gen.h"

struct R {
    std::istringstream in;
    uint64_t u() { uint64_t v = 0; in >> v; return v; }
};
template <class T, class = void> struct Rd;
template <class T> struct Rd<T, std::enable_if_t<std::is_integral_v<T>>> {
    static T get(R& r) { return static_cast<T>(r.u()); }
};
template <class T> struct Rd<T, std::enable_if_t<std::is_enum_v<T>>> {
    static T get(R& r) { return static_cast<T>(r.u()); }
};
template <class T> struct Rd<std::optional<T>> {
    static std::optional<T> get(R& r) { if (r.u() == 0) return std::nullopt; return Rd<T>::get(r); }
};
template <class T> struct Rd<std::vector<T>> {
    static std::vector<T> get(R& r) { uint64_t n = r.u(); std::vector<T> v; for (uint64_t i = 0; i < n; i++) v.push_back(Rd<T>::get(r)); return v; }
};
template <class T, size_t N> struct Rd<std::array<T, N>> {
    static std::array<T, N> get(R& r) { std::array<T, N> v; for (size_t i = 0; i < N; i++) v[i] = Rd<T>::get(r); return v; }
};

template <class T> std::enable_if_t<std::is_integral_v<T>> pj(std::ostream& o, T v) { o << static_cast<unsigned long long>(v); }
template <class T> std::enable_if_t<std::is_enum_v<T>> pj(std::ostream& o, T v) { o << static_cast<unsigned long long>(static_cast<std::underlying_type_t<T>>(v)); }
template <class T> void pj(std::ostream& o, std::vector<T> const& v);
template <class T, size_t N> void pj(std::ostream& o, std::array<T, N> const& v);
template <class T> void pj(std::ostream& o, std::optional<T> const& v);
'''

PRELUDE2 = r'''
template <class T> void pj(std::ostream& o, std::vector<T> const& v) { o << "["; bool f = true; for (auto const& e : v) { if (!f) o << ","; f = false; pj(o, e); } o << "]"; }
template <class T, size_t N> void pj(std::ostream& o, std::array<T, N> const& v) { o << "["; bool f = true; for (auto const& e : v) { if (!f) o << ","; f = false; pj(o, e); } o << "]"; }
template <class T> void pj(std::ostream& o, std::optional<T> const& v) { if (v.has_value()) pj(o, *v); else o << "null"; }

static std::vector<uint8_t> unhex(std::string const& s) {
    std::vector<uint8_t> v;
    if (s == "-") return v;
    for (size_t i = 0; i + 1 < s.size(); i += 2) v.push_back(static_cast<uint8_t>(std::stoul(s.substr(i, 2), nullptr, 16)));
    return v;
}
static void hex(std::ostream& o, std::vector<uint8_t> const& v) { static const char* d = "0123456789abcdef"; for (auto b : v) { o << d[b >> 4] << d[b & 15]; } }
'''


def camel(s):
    return "".join(p[:1].upper() + p[1:] for p in s.split("_") if p)


def parse_header(h):
    """constructor parameter lists and getter names per class"""
    ctors, getters = {}, {}
    cur = None
    for line in h.splitlines():
        m = re.match(r"class (\w+)", line)
        if m and not line.rstrip().endswith(";"):
            cur = m.group(1)
            getters.setdefault(cur, [])
        m = re.search(r"explicit (\w+)\((.*?)\) :", line)
        if m and cur == m.group(1):
            params = []
            depth, buf = 0, ""
            for ch in m.group(2):
                if ch in "<(":
                    depth += 1
                if ch in ">)":
                    depth -= 1
                if ch == "," and depth == 0:
                    params.append(buf.strip())
                    buf = ""
                else:
                    buf += ch
            if buf.strip():
                params.append(buf.strip())
            ctors[cur] = [(p.rsplit(" ", 1)[0], p.rsplit(" ", 1)[1]) for p in params]
        m = re.search(r"\b(Get[A-Z]\w*)\(\) const", line)
        if m and cur:
            getters[cur].append(m.group(1))
    return ctors, getters


def flatten(value, tschema, schemas):
    """value (native JSON) -> list of ints in the order the generated reader consumes them"""
    out = []

    def scal(v):
        out.append(int(v))

    def one(kind, type_, v):
        if kind == "struct":
            for f in schemas[type_]["fields"]:
                field(f, v[f["name"]])
            if schemas[type_]["payload"]:
                pl = v.get("payload") or []
                out.append(len(pl))
                out.extend(pl)
        else:
            scal(v)

    def field(f, v):
        if f["opt"]:
            if v is None:
                out.append(0)
                return
            out.append(1)
        if f["kind"] == "array":
            if f["count"] < 0:
                out.append(len(v))
            for e in v:
                one(f["ekind"], f["type"], e)
        else:
            one(f["kind"], f["type"], v)
    return out, field, one


def flatten_args(value, params, tschema, schemas):
    """flatten in *constructor parameter order* (parsed from the header)"""
    out, field, one = flatten(value, tschema, schemas)
    byname = {f["name"]: f for f in tschema["fields"]}
    for (_t, name) in params:
        if name == "payload":
            pl = value.get("payload") or []
            out.append(len(pl))
            out.extend(pl)
        elif name in byname:
            field(byname[name], value[name])
        else:
            raise KeyError("builder parameter %s not in the value schema" % name)
    return out


def generate(unit, schemas, header):
    ctors, getters = parse_header(header)
    src = [PRELUDE]
    structs = [t for t in schemas.values() if t["kind"] == "struct"]
    # struct printers / readers (members are `<id>_`)
    for t in structs:
        src.append("void pj(std::ostream& o, %s const& s);" % t["id"])
    src.append(PRELUDE2)
    for t in structs:
        body = []
        for i, f in enumerate(t["fields"]):
            body.append('o << "%s\\"%s\\":"; pj(o, s.%s_);' % ("," if i else "", f["name"], f["name"]))
        if t["payload"]:
            body.append('o << "%s\\"payload\\":"; pj(o, s.payload_);' % ("," if t["fields"] else ""))
        src.append("void pj(std::ostream& o, %s const& s) { o << \"{\"; %s o << \"}\"; }" % (t["id"], " ".join(body)))
        rd = ["%s s;" % t["id"]]
        for f in t["fields"]:
            rd.append("s.%s_ = Rd<decltype(s.%s_)>::get(r);" % (f["name"], f["name"]))
        if t["payload"]:
            rd.append("s.payload_ = Rd<decltype(s.payload_)>::get(r);")
        src.append("template <> struct Rd<%s> { static %s get(R& r) { %s return s; } };" % (t["id"], t["id"], " ".join(rd)))
    handlers = []
    usable = {}
    for t in schemas.values():
        tid = t["id"]
        if t["kind"] == "packet":
            view, builder = tid + "View", tid + "Builder"
            if view not in getters or builder not in ctors and t["fields"]:
                pass
            chain = unit.chain(tid)
            # parse: the chain of views
            lines = ["static void parse_%s(std::ostream& o, std::vector<uint8_t> const& bytes) {" % tid,
                     "  pdl::packet::slice s(std::make_shared<std::vector<uint8_t>>(bytes));"]
            prev = "s"
            for k, c in enumerate(chain):
                lines.append("  auto v%d = %sView::Create(%s);" % (k, c["id"], prev))
                prev = "v%d" % k
            last = prev
            lines.append('  o << "{\\"valid\\":" << (%s.IsValid() ? "true" : "false");' % last)
            lines.append('  if (%s.IsValid()) { o << ",\\"val\\":{"; bool first = true; (void)first;' % last)
            gl = getters.get(view, [])
            names = [f["name"] for f in t["fields"]] + (["payload"] if t["payload"] else [])
            ok = True
            for n in names:
                g = "Get" + camel(n)
                cand = [x for x in gl if x.lower() == g.lower()]
                if not cand:
                    ok = False
                    continue
                lines.append('    if (!first) o << ","; first = false; o << "\\"%s\\":"; pj(o, %s.%s());' % (n, last, cand[0]))
            lines.append('    o << "}"; }')
            lines.append('  o << "}";')
            lines.append("}")
            src += lines
            # build
            params = ctors.get(builder)
            if params is None and not names:
                params = []
            if params is not None:
                bl = ["static void build_%s(std::ostream& o, R& r) {" % tid]
                args = []
                for i, (ty, nm) in enumerate(params):
                    bl.append("  auto a%d = Rd<%s>::get(r);" % (i, ty))
                    args.append("std::move(a%d)" % i)
                if args:
                    bl.append("  %s b(%s);" % (builder, ", ".join(args)))
                else:
                    bl.append("  %s b;" % builder)
                bl.append("  std::vector<uint8_t> out; b.Serialize(out);")
                bl.append('  o << "{\\"bytes\\":\\""; hex(o, out); o << "\\",\\"size\\":" << b.GetSize() << "}";')
                bl.append("}")
                src += bl
            usable[tid] = {"parse": ok, "build": params}
            handlers.append((tid, True, params is not None))
        else:
            # struct: static Parse(slice&, S*) consumes a prefix; Serialize / GetSize on the value itself
            lines = ["static void parse_%s(std::ostream& o, std::vector<uint8_t> const& bytes) {" % tid,
                     "  pdl::packet::slice s(std::make_shared<std::vector<uint8_t>>(bytes));",
                     "  %s out; bool ok = %s::Parse(s, &out);" % (tid, tid),
                     '  o << "{\\"valid\\":" << (ok ? "true" : "false");',
                     '  if (ok) { o << ",\\"rest\\":" << s.size() << ",\\"val\\":"; pj(o, out); }',
                     '  o << "}";', "}"]
            src += lines
            bl = ["static void build_%s(std::ostream& o, R& r) {" % tid,
                  "  %s b = Rd<%s>::get(r);" % (tid, tid),
                  "  std::vector<uint8_t> out; b.Serialize(out);",
                  '  o << "{\\"bytes\\":\\""; hex(o, out); o << "\\",\\"size\\":" << b.GetSize() << "}";', "}"]
            src += bl
            usable[tid] = {"parse": True, "build": "struct"}
            handlers.append((tid, True, True))
    main = ["int main() {", "  std::string line;", "  while (std::getline(std::cin, line)) {",
            "    if (line.empty()) continue;",
            "    std::istringstream ls(line); std::string rid, op, ty; ls >> rid >> op >> ty;",
            "    std::ostringstream o;",
            '    o << "{\\"rid\\":" << rid << ",\\"r\\":";']
    for (tid, p, b) in handlers:
        main.append('    if (op == "P" && ty == "%s") { std::string hx; ls >> hx; parse_%s(o, unhex(hx)); }' % (tid, tid))
        if b:
            main.append('    if (op == "B" && ty == "%s") { R r; std::string rest; std::getline(ls, rest); r.in.str(rest); build_%s(o, r); }'
                        % (tid, tid))
    main += ['    o << "}";', "    std::cout << o.str() << std::endl;", "  }", "  return 0;", "}"]
    src += main
    return "\n".join(src) + "\n", usable
