#!/bin/bash
# usage: tools/seedtest.sh <seed dir name> <property> [tier]
# applies /verif/seeded/<name>/patch.diff to /repo, runs the check, reverts; prints the exit code
set -u
name=$1; prop=$2; tier=${3:-quick}
cd /repo || exit 2
git diff --quiet || { echo "repo dirty"; exit 2; }
git apply /verif/seeded/$name/patch.diff || { echo "patch does not apply"; exit 2; }
cd /verif
python3 tools/verif.py check $prop --tier $tier > .work/seed_$name.$prop.out 2>&1
rc=$?
cd /repo && git checkout -- . 
echo "seed=$name property=$prop exit=$rc violations=$(grep -c '^VIOLATION' /verif/.work/seed_$name.$prop.out)"
grep -A1 '^VIOLATION' /verif/.work/seed_$name.$prop.out | grep -v '^--' | head -6
exit 0
