#!/bin/bash
# usage: tools/seedns.sh <seed dir name> <property> [tier]
# Runs one check against a seeded change without touching /repo or /verif: a private mount namespace in which
# /repo is a patched copy of the repository and /verif a copy of the machinery (with its build caches).
# Result: /verif/.work/seedres/<seed>.<property>.out and a one-line summary on stdout.
set -u
name=$1; prop=$2; tier=${3:-quick}
S=/tmp/vs_${name}_${prop}
rm -rf $S; mkdir -p $S
rsync -a --exclude target --exclude .git /repo/ $S/repo/
( cd $S/repo && patch -p1 -s < /verif/seeded/$name/patch.diff ) || { echo "seed=$name patch does not apply"; rm -rf $S; exit 2; }
rsync -a --exclude replays --exclude .git --exclude seedres /verif/ $S/verif/
unshare -m bash -c "mount --bind $S/repo /repo && mount --bind $S/verif /verif && cd /verif && python3 tools/verif.py check $prop --tier $tier > /verif/.work/seed.out 2>&1; echo \$? > /verif/.work/seed.rc"
rc=$(cat $S/verif/.work/seed.rc)
mkdir -p /verif/.work/seedres
cp $S/verif/.work/seed.out /verif/.work/seedres/$name.$prop.out
cp $S/verif/.work/last_${prop}_violations.json /verif/.work/seedres/$name.$prop.violations.json 2>/dev/null
echo "seed=$name property=$prop tier=$tier exit=$rc violations=$(grep -c '^VIOLATION' $S/verif/.work/seed.out)"
grep -A1 '^VIOLATION' $S/verif/.work/seed.out | grep -v '^--' | grep -v '^VIOLATION' | head -5
rm -rf $S
