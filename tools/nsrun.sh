#!/bin/bash
# usage: tools/nsrun.sh <tag> [patch.diff|-] -- <command...>
# Runs a command in a private mount namespace where /repo and /verif are copies (optionally with a patch applied
# to the /repo copy), so that experiments never disturb /repo, /verif or a check running there.
# The copy's .work/ns.out holds the output; it is copied to /verif/.work/ns/<tag>.out; the scratch copy is removed.
set -u
tag=$1; patch=$2; shift 3
S=/tmp/ns_$tag
rm -rf $S; mkdir -p $S
rsync -a --exclude target --exclude .git /repo/ $S/repo/
if [ "$patch" != "-" ]; then ( cd $S/repo && patch -p1 -s < $patch ) || { echo "patch does not apply"; rm -rf $S; exit 2; }; fi
rsync -a --exclude replays --exclude .git --exclude seedres --exclude ns /verif/ $S/verif/
cmd="$*"
unshare -m bash -c "mount --bind $S/repo /repo && mount --bind $S/verif /verif && cd /verif && ( $cmd ) > /verif/.work/ns.out 2>&1; echo \$? > /verif/.work/ns.rc"
mkdir -p /verif/.work/ns
cp $S/verif/.work/ns.out /verif/.work/ns/$tag.out
for f in $S/verif/.work/last_*_violations.json; do [ -f "$f" ] && cp $f /verif/.work/ns/$tag.$(basename $f); done
echo "ns=$tag exit=$(cat $S/verif/.work/ns.rc)"
rm -rf $S
