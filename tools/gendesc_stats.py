import json,re,collections,sys
sys.path.insert(0,'/verif/tools')
import pdl
def load(path):
    seen=set(); out=[]
    for l in open(path):
        if '"DESC"' not in l: continue
        m=re.search(r'<<"DESC", "(.*)">>',l)
        r=json.loads(json.loads('"'+m.group(1)+'"'))
        key=json.dumps(r['d'],sort_keys=True)
        if key in seen: continue
        seen.add(key); out.append(r)
    return out
if __name__=="__main__":
    rs=load(sys.argv[1])
    c=collections.Counter(); codes=collections.Counter()
    for r in rs:
        c['n']+=1
        if not r['accepted']:
            for x in r['codes']: codes[x]+=1
            continue
        c['acc']+=1
        for b in ('rust','py','cxx','java'): c[b]+=r[b]
        d=r['d']
        if any(x['parent'] for x in d['decls']): c['inherit']+=1
        if any(x['cons'] for x in d['decls']): c['cons']+=1
        if any(x['kind']=='group' for x in d['decls']): c['groupdecl']+=1
        ks=collections.Counter(f['kind'] for x in d['decls'] for f in x['fields'])
        for k in ks: c['f_'+k]+=1
        if any(f['cond'] for x in d['decls'] for f in x['fields']): c['optional']+=1
        if any(f['kind']=='group' and f['cons'] for x in d['decls'] for f in x['fields']): c['groupcons']+=1
    print(dict(c)); print(dict(codes))
    k=0
    for r in rs:
        if r['accepted'] and any(x['parent'] for x in r['d']['decls']) and k<2:
            print(pdl.render(r['d'])); k+=1
