#!/usr/bin/env python3
"""Orchestrator of the pdl verification machinery (see /verif/DESIGN.md).

It prepares builds, runs TLC, runs the conformance harnesses, compares what the real code did
with what the TLA+ specification says, writes evidence and replay files and prints
VIOLATION / KNOWN-FINDING lines.  It contains no PDL semantics: every expectation comes out of
TLC evaluating spec/*.tla."""
import argparse
import hashlib
import json
import os
import random
import shutil
import subprocess
import sys
import time

HERE = os.path.dirname(os.path.abspath(__file__))
VERIF = os.path.dirname(HERE)
sys.path.insert(0, HERE)
sys.path.insert(0, os.path.join(VERIF, "corpus"))
WORK = os.path.join(VERIF, ".work")
SPEC = os.path.join(VERIF, "spec")
REPO = "/repo"
REPLAYS = os.path.join(VERIF, "replays")
EVIDENCE = os.path.join(VERIF, "evidence")
NCPU = os.cpu_count() or 4
TLA_CP = "/opt/veriftools/tla/tla2tools.jar:/opt/veriftools/tla/CommunityModules-deps.jar"      # what `tlc` uses

import pdl  # noqa: E402
import kit  # noqa: E402


class ToolError(Exception):
    pass


def _filtered(f):
    def g(*a, **kw):
        ds = f(*a, **kw)
        only = os.environ.get("VERIF_ONLY")
        if only:
            ds = [d for d in ds if d["name"] == only]
        return ds
    return g


for _n in ("build", "schema_descs", "c10_descs", "syntax_descs"):
    setattr(kit, _n, _filtered(getattr(kit, _n)))


def log(*a):
    print("[verif]", *a, file=sys.stderr, flush=True)


def sh(cmd, cwd=None, env=None, timeout=None, check=True, capture=True):
    e = dict(os.environ)
    e["CARGO_NET_OFFLINE"] = "true"
    if env:
        e.update(env)
    p = subprocess.run(cmd, cwd=cwd, env=e, timeout=timeout, text=True,
                       stdout=subprocess.PIPE if capture else None,
                       stderr=subprocess.STDOUT if capture else None)
    if check and p.returncode != 0:
        raise ToolError("command failed (%d): %s\n%s" % (p.returncode, " ".join(map(str, cmd)), (p.stdout or "")[-4000:]))
    return p


def write_if_changed(path, text):
    try:
        if open(path).read() == text:
            return False
    except OSError:
        pass
    os.makedirs(os.path.dirname(path), exist_ok=True)
    with open(path, "w") as f:
        f.write(text)
    return True


def repo_state():
    """hash of /repo's working tree sources (what every check rebuilds from)"""
    h = hashlib.sha256()
    for root in ("pdl-compiler/src", "pdl-compiler/scripts", "pdl-runtime/src", "pdl-derive/src"):
        for dp, dn, fn in os.walk(os.path.join(REPO, root)):
            dn.sort()
            for f in sorted(fn):
                p = os.path.join(dp, f)
                h.update(p.encode())
                with open(p, "rb") as fh:
                    h.update(fh.read())
    return h.hexdigest()[:16]


# ------------------------------------------------------------------------------ driver
def build_driver():
    d = os.path.join(VERIF, "harness", "driver")
    lock = os.path.join(d, "Cargo.lock")
    if not os.path.exists(lock):
        shutil.copy(os.path.join(REPO, "Cargo.lock"), lock)
    t = time.time()
    sh(["cargo", "build", "--offline", "-q"], cwd=d, timeout=1800)
    log("driver built in %.1fs" % (time.time() - t))
    return os.path.join(WORK, "target-driver", "debug", "pdl_driver")


def run_lines(binary, reqs, tag, timeout=600, args=(), encode=None, use_stdin=False, env=None):
    """Run a line-oriented harness with crash recovery: a process death loses one request,
    which is reported as abnormal."""
    os.makedirs(os.path.join(WORK, "io"), exist_ok=True)
    results = {}
    pending = list(reqs)
    round_ = 0
    while pending:
        round_ += 1
        inp = os.path.join(WORK, "io", "%s.%d.%d.in" % (tag, os.getpid(), round_))
        with open(inp, "w") as f:
            for r in pending:
                f.write((encode(r) if encode else json.dumps(r)) + "\n")
        try:
            e2 = dict(os.environ)
            if env:
                e2.update(env)
            if use_stdin:
                with open(inp) as fin:
                    p = subprocess.run([binary] + list(args), stdin=fin, stdout=subprocess.PIPE, stderr=subprocess.PIPE,
                                       text=True, timeout=timeout, env=e2)
            else:
                p = subprocess.run([binary] + list(args) + [inp], stdout=subprocess.PIPE, stderr=subprocess.PIPE,
                                   text=True, timeout=timeout, env=e2)
            out, rc, err = p.stdout, p.returncode, p.stderr
        except subprocess.TimeoutExpired as e:
            out, rc, err = (e.stdout or b"").decode() if isinstance(e.stdout, bytes) else (e.stdout or ""), -9, "timeout"
        os.unlink(inp)
        seen = set()
        bad = []
        for line in out.split("\n"):
            if not line.strip():
                continue
            try:
                r = json.loads(line)
            except ValueError:
                bad.append(line[:200])
                continue
            if "rid" in r:
                results[r["rid"]] = r
                seen.add(r["rid"])
            else:
                bad.append(line[:200])
        rest = [r for r in pending if r["rid"] not in seen]
        if not rest:
            break
        if rc == 0:
            if len(rest) == len(pending) and len(pending) > 3:
                raise ToolError("%s produced no output: %s %s" % (binary, err[-2000:], bad[:3]))
            # the process ended normally but did not answer these requests (harness-level problem)
            for r in rest:
                results[r["rid"]] = {"rid": r["rid"], "harness_no_response": bad[:2]}
            break
        # the first unanswered request killed the process
        dead = rest[0]
        if dead["rid"] not in results:
            results[dead["rid"]] = {"rid": dead["rid"], "r": {"abnormal": "abort", "rc": rc, "stderr": err[-1500:]},
                                    "abnormal": "abort", "rc": rc, "stderr": err[-1500:]}
        pending = rest[1:]
        if round_ > 200:
            raise ToolError("too many harness crashes")
    return results


def run_driver(binary, reqs, tag="drv"):
    # shard across processes for speed
    reqs = list(reqs)
    if len(reqs) < 64:
        return run_lines(binary, reqs, tag)
    import concurrent.futures
    n = min(NCPU, max(1, len(reqs) // 32))
    shards = [reqs[i::n] for i in range(n)]
    res = {}
    with concurrent.futures.ThreadPoolExecutor(n) as ex:
        for r in ex.map(lambda a: run_lines(binary, a[1], "%s%d" % (tag, a[0])), enumerate(shards)):
            res.update(r)
    return res


# ------------------------------------------------------------------------------ TLC
def tlc(module, cfg, env, workers=None, tag="tlc", timeout=3600, simulate=None, extra=(), coverage=False):
    """Run TLC on spec/<module>.tla; returns (tagged lines, stats)."""
    workers = workers or min(NCPU, 12)
    meta = os.path.join(WORK, "tlc", "%s.%d" % (tag, os.getpid()))
    shutil.rmtree(meta, ignore_errors=True)
    os.makedirs(meta, exist_ok=True)
    out = os.path.join(meta, "out.txt")
    e = dict(os.environ)
    e.update(env)
    # -Xss on the command line, not in JAVA_TOOL_OPTIONS: the launcher sizes the *main* thread (which evaluates the
    # initial states - all of the work of the trace specifications) from its own arguments only
    e["JAVA_TOOL_OPTIONS"] = "-Xss1g " + env.get("JAVA_TOOL_OPTIONS", "")
    cmd = ["java", "-Xss1g", "-XX:+UseParallelGC", "-cp", TLA_CP, "tlc2.TLC",
           "-workers", str(workers), "-metadir", os.path.join(meta, "states"), "-cleanup",
           "-noGenerateSpecTE", "-config", os.path.join(SPEC, cfg)]
    if coverage:
        cmd += ["-coverage", "1"]
    if simulate:
        cmd += ["-simulate", simulate]
    cmd += list(extra) + [os.path.join(SPEC, module + ".tla")]
    t = time.time()
    with open(out, "w") as f:
        try:
            p = subprocess.run(cmd, cwd=SPEC, env=e, stdout=f, stderr=subprocess.STDOUT, timeout=timeout)
            rc = p.returncode
        except subprocess.TimeoutExpired:
            rc = -9
    lines = []
    stats = {"states": 0, "distinct": 0, "rc": rc, "wall_s": round(time.time() - t, 1), "coverage": {}}
    other = []
    with open(out) as f:
        for line in f:
            if line.startswith('<<"'):
                lines.append(line)
                continue
            other.append(line)
            if "states generated" in line and "distinct states found" in line:
                w = line.replace(",", "").split()
                try:
                    stats["states"] = int(w[0])
                    stats["distinct"] = int(w[3])
                except (ValueError, IndexError):
                    pass
            if line.startswith("The number of states generated:"):
                try:
                    n = int(line.split(":")[1].strip().replace(",", ""))
                    stats["states"] += n
                    stats["distinct"] += n
                except ValueError:
                    pass
            if line.startswith("<") and " line " in line and ">: " in line:
                # coverage: <Next line 42, col 1 to line 42, col 80 of module X>: 12:345
                name = line[1:].split(" ", 1)[0]
                try:
                    cnt = line.rsplit(">: ", 1)[1].strip().split(":")
                    stats["coverage"][name] = [int(cnt[0]), int(cnt[1])]
                except (ValueError, IndexError):
                    pass
    ok = rc == 0 or (simulate and rc in (0,))
    if not ok:
        tail = "".join(other[-40:])
        errs = "".join(x for x in other if x.startswith("Error:"))[:1500]
        raise ToolError("TLC failed on %s (rc=%s):\n%s\n...\n%s" % (module, rc, errs, tail[-3000:]))
    shutil.rmtree(meta, ignore_errors=True)
    return lines, stats


def parse_tagged(lines, tag):
    """lines of the form <<"TAG", "json-string">> -> list of dicts"""
    pre = '<<"%s", ' % tag
    out = []
    for line in lines:
        if not line.startswith(pre):
            continue
        s = line.strip()[len(pre):-2]
        out.append(json.loads(json.loads(s)))
    return out


def write_ndjson(path, rows):
    os.makedirs(os.path.dirname(path), exist_ok=True)
    with open(path, "w") as f:
        for r in rows:
            f.write(json.dumps(r) + "\n")


# ------------------------------------------------------------------------------ values: spec nodes <-> native JSON
def node_to_native(n):
    t = n["t"]
    if t == "u":
        return pdl.unlimbs(n["b"])
    if t == "b":
        return list(n["b"])
    if t == "a":
        return [node_to_native(x) for x in n["c"]]
    if t == "s":
        return {k: node_to_native(v) for k, v in zip(n["n"], n["c"])}
    if t == "n":
        return None
    raise ValueError(t)


def native_to_node(v, key=None):
    if v is None:
        return dict(t="n", b=[], c=[], n=[])
    if isinstance(v, bool):
        v = int(v)
    if isinstance(v, int):
        return dict(t="u", b=pdl.limbs(v), c=[], n=[])
    if isinstance(v, list):
        if key == "payload":
            return dict(t="b", b=list(v), c=[], n=[])
        return dict(t="a", b=[], c=[native_to_node(x) for x in v], n=[])
    if isinstance(v, dict):
        ks = list(v.keys())
        return dict(t="s", b=[], c=[native_to_node(v[k], k) for k in ks], n=ks)
    raise ValueError(repr(v))


def same_native(a, b):
    """structural equality of native values; dict key order is irrelevant"""
    if isinstance(a, dict) and isinstance(b, dict):
        return set(a) == set(b) and all(same_native(a[k], b[k]) for k in a)
    if isinstance(a, list) and isinstance(b, list):
        return len(a) == len(b) and all(same_native(x, y) for x, y in zip(a, b))
    return a == b and type(a) == type(b)


RUST_DEC = {"LengthError": "Length", "FixedValueError": "FixedValue", "EnumValueError": "EnumValue",
            "ArraySizeError": "ArraySize", "TrailingBytesError": "TrailingBytes",
            "TrailingBytesInArray": "TrailingBytesInArray", "ConstraintValueError": "ConstraintValue",
            "UnwrapError": "UnwrapError"}


# ------------------------------------------------------------------------------ generated Rust harness
def backing(w):
    for b in (8, 16, 32, 64):
        if w <= b:
            return b
    return 64


class Unit:
    """one description in one endianness, as compiled by the real compiler"""

    def __init__(self, idx, desc):
        self.idx = idx
        self.desc = desc
        self.name = desc["name"] + "/" + desc["endian"][0]
        self.mod = "m%04d" % idx
        self.src = pdl.render(desc)
        self.resp = None
        self.rust = None
        self.status = "new"

    def decl(self, id):
        for x in self.desc["decls"]:
            if x["id"] == id:
                return x
        return None

    def chain(self, id):
        out = []
        while id:
            x = self.decl(id)
            if x is None or x in out:
                break
            out.insert(0, x)
            id = x["parent"]
        return out

    def types(self):
        return [x["id"] for x in self.desc["decls"] if x["kind"] in ("packet", "struct")]

    def enums(self):
        return [x for x in self.desc["decls"] if x["kind"] == "enum"]

    def children(self, id):
        return [x["id"] for x in self.desc["decls"] if x["parent"] == id]


BUILD_SEED = 20260923      # the quick tier's descriptions are the same on every run (vetted on the unchanged tree)


def builder_run(seed, num, depth=160, consts=None):
    """Behaviours of the description builder (spec/PdlBuild.tla, MC_Build): one description per behaviour,
    every choice drawn by TLC's simulator.  -> list of result records (description + the specification's
    verdict and supported classes), deduplicated, in a canonical order.  Cached per (spec, seed, num)."""
    h = hashlib.sha256()
    for f in sorted(os.listdir(SPEC)):
        if f.endswith((".tla", ".cfg")) and not f.startswith(("MC_Vectors", "MC_Syntax", "MC_Analyzer", "MC_Compile", "Trace_")):
            h.update(open(os.path.join(SPEC, f), "rb").read())
    key = "%s_%d_%d_%d" % (h.hexdigest()[:12], seed, num, depth)
    cache = os.path.join(WORK, "gen", "build_%s.ndjson" % key)
    if os.path.exists(cache):
        return [json.loads(l) for l in open(cache)]
    # four single-worker simulations side by side: with one worker the behaviours drawn for a seed do not depend on
    # thread scheduling (with several workers in one TLC they do, under load), so the batch is the same on every machine
    import concurrent.futures
    parts = 4

    def one(i):
        return tlc("MC_Build", "MC_Build.cfg", {}, workers=1, tag="build%d" % i, timeout=3600,
                   simulate="num=%d" % max(1, num // parts), extra=["-depth", str(depth), "-seed", str(seed * 1000 + i)])[0]
    with concurrent.futures.ThreadPoolExecutor(parts) as ex:
        lines = [l for ls in ex.map(one, range(parts)) for l in ls]
    seen = {}
    for r in parse_tagged(lines, "DESC"):
        k = json.dumps(r["d"], sort_keys=True)
        if k not in seen:
            r["name"] = "g_" + hashlib.sha256(k.encode()).hexdigest()[:8]
            seen[k] = r
    out = [seen[k] for k in sorted(seen, key=lambda k: seen[k]["name"])]
    os.makedirs(os.path.dirname(cache), exist_ok=True)
    with open(cache + ".tmp", "w") as f:
        for r in out:
            f.write(json.dumps(r) + "\n")
    os.replace(cache + ".tmp", cache)
    return out


def builder_descs(tier, seed, backend="rust", n=None):
    """descriptions written by the builder machine that the specification accepts and places inside the
    backend's supported class; quick: a fixed batch, thorough: a larger one plus a batch drawn from VERIF_SEED"""
    n = n or int(os.environ.get("VERIF_NGEN", "64" if tier == "quick" else "240"))
    if n <= 0:
        return []
    recs = builder_run(BUILD_SEED, n)
    if tier == "thorough" and seed != 0:
        recs = recs + builder_run(seed, n)
    out, names = [], set()
    for r in recs:
        if not (r["accepted"] and (backend is None or r.get(backend))) or r["name"] in names:
            continue
        if not any(x["fields"] for x in r["d"]["decls"] if x["kind"] in ("packet", "struct")):
            continue
        if os.environ.get("VERIF_ONLY") and os.environ["VERIF_ONLY"] != r["name"]:
            continue
        names.add(r["name"])
        d = json.loads(json.dumps(r["d"]))
        d["name"] = r["name"]
        out.append(d)
    return out


def make_units(descs, endians=("little", "big")):
    units = []
    for d in descs:
        for e in endians:
            dd = json.loads(json.dumps(d))
            dd["endian"] = e
            units.append(Unit(len(units), dd))
    return units


def compile_units(drv, units, want):
    reqs = [dict(rid=u.idx, name=u.desc["name"] + ".pdl", src=u.src, want=want) for u in units]
    res = run_driver(drv, reqs)
    for u in units:
        u.resp = res.get(u.idx, {})
        a = u.resp.get("analyze", {})
        if "ok" not in u.resp.get("parse", {}):
            u.status = "parse_failed"
        elif "ok" not in a:
            u.status = "rejected" if "diags" in a else "analyze_abnormal"
        else:
            u.status = "accepted"
    return units


RUST_KEYWORDS = set("""as break const continue else enum extern false fn for if impl in let loop match mod move mut pub ref return
static struct trait true type unsafe use where while async await dyn abstract become box do final macro override priv
typeof unsized virtual yield try gen""".split())


def rs_ident(name):
    """how Rust source names an item the generator called `name` (raw identifier for a keyword)"""
    return "r#" + name if name in RUST_KEYWORDS else name


def registry_lines(u):
    m = u.mod
    L = []
    for t in u.types():
        rt = rs_ident(t)
        L.append('    r.packet::<%s::%s>("%s", "%s");' % (m, rt, u.name, t))
        L.append('    r.stream::<%s::%s>("%s", "%s");' % (m, rt, u.name, t))
        ch = u.chain(t)
        for anc in ch[:-1]:
            L.append('    r.conv::<%s::%s, %s::%s>("%s", "%s", "%s");' % (m, rt, m, rs_ident(anc["id"]), u.name, t, anc["id"]))
        if u.children(t):
            L.append('    r.specialize::<%s::%s, _>("%s", "%s", |p| p.specialize().map(|c| serde_json::to_value(&c).unwrap()));'
                     % (m, rt, u.name, t))
    for e in u.enums():
        w = e["width"]
        if not 1 <= w <= 64:
            continue
        b = backing(w)
        re_ = rs_ident(e["id"])
        L.append('    r.enumeration::<%s::%s, u%d>("%s", "%s");' % (m, re_, b, u.name, e["id"]))
        for n in (8, 16, 32, 64):
            if n > w:
                L.append('    r.widen::<%s::%s, u%d, i%d>("%s", "%s", "i%d");' % (m, re_, b, n, u.name, e["id"], n))
            if n >= w and n != b:
                L.append('    r.widen::<%s::%s, u%d, u%d>("%s", "%s", "u%d");' % (m, re_, b, n, u.name, e["id"], n))
    return L


CARGO_SHARD = """[package]
name = "%s"
version = "0.0.0"
edition = "2021"
publish = false

[features]
default = ["serde"]
serde = []

[dependencies]
hcommon = { path = "%s" }
bytes = { version = "1.4.0", features = ["serde"] }
thiserror = "1.0.47"
serde = { version = "1.0.145", features = ["derive"] }
serde_json = "1.0.86"
pdl-runtime = { path = "/repo/pdl-runtime" }
"""


def build_rust_harness(units, profile="dev", nshards=None):
    """Write the generated modules into shard crates, build them, drop modules that do not compile
    (recorded on the unit) and rebuild.  Returns {unit name: binary path}."""
    good = [u for u in units if u.status == "accepted" and "ok" in u.resp.get("rust", {})]
    for u in units:
        if u.status == "accepted" and "ok" not in u.resp.get("rust", {}):
            u.rust = "generate_failed"
    root = os.path.join(WORK, "rustgen")
    os.makedirs(os.path.join(root, ".cargo"), exist_ok=True)
    nshards = nshards or max(1, min(NCPU, len(good) // 12 + 1))
    write_if_changed(os.path.join(root, ".cargo", "config.toml"),
                     "[net]\noffline = true\n[build]\ntarget-dir = \"%s\"\n" % os.path.join(WORK, "target-rustgen"))
    if not os.path.exists(os.path.join(root, "Cargo.lock")):
        shutil.copy(os.path.join(REPO, "Cargo.lock"), os.path.join(root, "Cargo.lock"))
    shards = ["s%02d" % i for i in range(nshards)]
    # remove stale shard dirs
    for x in os.listdir(root):
        if x.startswith("s") and x[1:].isdigit() and x not in shards:
            shutil.rmtree(os.path.join(root, x), ignore_errors=True)
    write_if_changed(os.path.join(root, "Cargo.toml"),
                     "[workspace]\nresolver = \"2\"\nmembers = [%s]\n\n[profile.dev]\nopt-level = 0\ndebug = 0\n"
                     "overflow-checks = true\ndebug-assertions = true\nincremental = false\n\n"
                     "[profile.release]\nopt-level = 1\ndebug = 0\noverflow-checks = false\ndebug-assertions = false\n"
                     "incremental = false\n" % ", ".join('"%s"' % s for s in shards))
    assign = {s: [] for s in shards}
    for i, u in enumerate(good):
        assign[shards[i % nshards]].append(u)
    dropped = {}
    for attempt in range(6):
        for s in shards:
            sd = os.path.join(root, s)
            os.makedirs(os.path.join(sd, "src"), exist_ok=True)
            write_if_changed(os.path.join(sd, "Cargo.toml"),
                             CARGO_SHARD % (s, os.path.join(VERIF, "harness", "rust_gen", "hcommon")))
            mods, regs = [], []
            keep = set()
            for u in assign[s]:
                if u.mod in dropped:
                    continue
                fn = u.mod + ".rs"
                keep.add(fn)
                write_if_changed(os.path.join(sd, "src", fn), u.resp["rust"]["ok"])
                mods.append('#[path = "%s"] mod %s;' % (fn, u.mod))
                regs += registry_lines(u)
            for x in os.listdir(os.path.join(sd, "src")):
                if x.endswith(".rs") and x != "main.rs" and x not in keep:
                    os.unlink(os.path.join(sd, "src", x))
            main = ("#![allow(warnings)]\n#[global_allocator]\nstatic A: hcommon::CapAlloc = hcommon::CapAlloc;\n"
                    + "\n".join(mods) + "\nfn main() {\n    let mut r = hcommon::Registry::new();\n"
                    + "\n".join(regs) + "\n    hcommon::serve(r);\n}\n")
            write_if_changed(os.path.join(sd, "src", "main.rs"), main)
        t = time.time()
        cmd = ["cargo", "build", "--offline", "--keep-going", "--message-format=short"]
        if profile == "release":
            cmd.append("--release")
        p = sh(cmd, cwd=root, timeout=3600, check=False, env={"RUSTFLAGS": "-Awarnings"})
        log("rust harness build attempt %d: rc=%d in %.1fs" % (attempt, p.returncode, time.time() - t))
        if p.returncode == 0:
            break
        bad = set()
        for line in p.stdout.splitlines():
            # s03/src/m0012.rs:123:45: error[E...]: ...
            if ": error" in line and "/src/m" in line:
                modname = line.split("/src/")[1].split(".rs")[0]
                bad.add(modname)
                dropped.setdefault(modname, line.strip()[:300])
        if not bad:
            raise ToolError("rust harness build failed:\n" + p.stdout[-6000:])
    else:
        raise ToolError("rust harness build does not converge")
    bins = {}
    tdir = os.path.join(WORK, "target-rustgen", "release" if profile == "release" else "debug")
    for s in shards:
        for u in assign[s]:
            if u.mod in dropped:
                u.rust = "compile_failed: " + dropped[u.mod]
            else:
                u.rust = "ok"
                bins[u.name] = os.path.join(tdir, s)
    return bins


def run_rust(bins, reqs, tag="rs"):
    """dispatch requests (each with 'desc') to the shard binary holding that description"""
    by_bin = {}
    for r in reqs:
        b = bins.get(r["desc"])
        if b is None:
            continue
        by_bin.setdefault(b, []).append(r)
    import concurrent.futures
    res = {}
    items = list(by_bin.items())
    with concurrent.futures.ThreadPoolExecutor(max(1, min(NCPU, len(items)))) as ex:
        for r in ex.map(lambda a: run_lines(a[1][0], a[1][1], "%s%d" % (tag, a[0])), enumerate(items)):
            res.update(r)
    return res


# ------------------------------------------------------------------------------ reporting
import fnmatch


def load_known():
    p = os.path.join(VERIF, "known_findings.json")
    try:
        return json.load(open(p))
    except OSError:
        return {"findings": [], "fixed": []}


class Report:
    def __init__(self, prop, tier, seed):
        self.prop, self.tier, self.seed = prop, tier, seed
        self.t0 = time.time()
        self.violations = []      # (fingerprint, replay dict)
        self.known_hits = {}
        self.coverage = {"states": 0, "transitions": 0, "traces_validated_against_impl": 0, "samples": []}
        self.assumptions = []
        self.notes = {}
        self.known = [k for k in load_known().get("findings", []) if k["property"] == prop]

    def tlc_stats(self, stats):
        self.coverage["states"] += stats.get("distinct", 0)
        self.coverage["transitions"] += stats.get("states", 0)
        self.notes.setdefault("tlc_runs", []).append({k: v for k, v in stats.items() if k != "coverage"})

    def sample(self, x):
        if len(self.coverage["samples"]) < 6:
            self.coverage["samples"].append(x)

    def validated(self, n=1):
        self.coverage["traces_validated_against_impl"] += n

    def violation(self, fingerprint, replay):
        for k in self.known:
            if fnmatch.fnmatchcase(fingerprint, k["match"]):
                self.known_hits.setdefault(k["match"], [k, 0])[1] += 1
                return
        self.violations.append((fingerprint, replay))

    def finish(self):
        os.makedirs(REPLAYS, exist_ok=True)
        os.makedirs(EVIDENCE, exist_ok=True)
        for m, (k, n) in sorted(self.known_hits.items()):
            print("KNOWN-FINDING: property=%s %s (%d occurrences this run; match=%s)" % (self.prop, k["what"], n, m))
        shown = set()
        nviol = 0
        for fp, rep in self.violations:
            nviol += 1
            key = fp
            if key in shown or len(shown) >= 25:
                continue
            shown.add(key)
            h = hashlib.sha256(fp.encode()).hexdigest()[:12]
            path = os.path.join(REPLAYS, "%s-%s.json" % (self.prop, h))
            rep = dict(rep)
            rep["property"] = self.prop
            rep["fingerprint"] = fp
            with open(path, "w") as f:
                json.dump(rep, f, indent=1)
            print("VIOLATION property=%s replay=%s" % (self.prop, path))
            print("  " + fp, file=sys.stderr)
        summary = {}
        for fp, rep in self.violations:
            e = summary.setdefault(fp, {"n": 0, "example": rep.get("observed"), "stimulus": rep.get("stimulus"),
                                        "label": rep.get("label")})
            e["n"] += 1
        os.makedirs(WORK, exist_ok=True)
        with open(os.path.join(WORK, "last_%s_violations.json" % self.prop), "w") as f:
            json.dump(summary, f, indent=1)
        ev = {
            "property_id": self.prop, "tier": self.tier, "seed": self.seed, "level": "model_checking",
            "coverage": dict(self.coverage, **self.notes),
            "assumptions": self.assumptions, "wall_s": round(time.time() - self.t0, 1),
            "violations": nviol,
        }
        ev["coverage"]["known_findings_hit"] = {m: n for m, (k, n) in self.known_hits.items()}
        if not ev["coverage"]["samples"]:
            # every explored case was a violation: show some of them
            ev["coverage"]["samples"] = [{"violation": fp, "stimulus": rep.get("stimulus")} for fp, rep in self.violations[:4]]
        if ev["coverage"]["states"] < 1 or not ev["coverage"]["samples"]:
            raise ToolError("evidence would be empty: nothing was explored")
        evp = os.path.join(EVIDENCE, "%s.json" % self.prop)
        if os.environ.get("VERIF_ONLY") or os.environ.get("VERIF_REPLAY"):
            evp = os.path.join(WORK, "replay_evidence_%s.json" % self.prop)     # a replay never rewrites the evidence
        with open(evp, "w") as f:
            json.dump(ev, f, indent=1)
        log("%s: %d violation(s), %d known-finding pattern(s), %.0fs" % (self.prop, nviol, len(self.known_hits),
                                                                       time.time() - self.t0))
        return 1 if nviol else 0


# ------------------------------------------------------------------------------ the Rust codec stage (C01-C05, C18)
PREFIX = [0xAA, 0xBB, 0xCC]


class Ctx:
    def __init__(self, tier, seed):
        self.tier, self.seed = tier, seed
        self.rng = random.Random(seed)
        self.drv = None
        self.tmp = os.path.join(WORK, "run.%d" % os.getpid())
        os.makedirs(self.tmp, exist_ok=True)

    def driver(self):
        if not self.drv:
            self.drv = build_driver()
        return self.drv

    def cleanup(self):
        if not os.environ.get("VERIF_KEEP"):
            shutil.rmtree(self.tmp, ignore_errors=True)


def run_jobs(ctx, units, jobs, rep, tag="vec"):
    """TLC MC_Vectors over an explicit job list [{d (1-based unit position), type, mode, n}]."""
    descs_p = os.path.join(ctx.tmp, "descs.ndjson")
    jobs_p = os.path.join(ctx.tmp, "jobs.ndjson")
    write_ndjson(descs_p, [u.desc for u in units])
    write_ndjson(jobs_p, jobs)
    try:
        lines, stats = tlc("MC_Vectors", "MC_Vectors.cfg", dict(DESCS=descs_p, JOBS=jobs_p), tag=tag)
    except ToolError as e:
        # a model-level invariant failed (the specification is incoherent on some description): say on which one
        import re
        m = re.search(r"job = (\d+)", str(e))
        if m and 1 <= int(m.group(1)) <= len(jobs):
            j = jobs[int(m.group(1)) - 1]
            u = units[j["d"] - 1]
            raise ToolError("%s\n--- job %s on description %s:\n%s" % (str(e)[:5000], json.dumps(j), u.name, u.src))
        raise
    rep.tlc_stats(stats)
    vecs = parse_tagged(lines, "VEC")
    info = {}
    out = []
    for v in vecs:
        j = jobs[v["job"] - 1]
        u = units[j["d"] - 1]
        if v["k"] == "info":
            info[u.name] = v
            continue
        v["unit"], v["type"], v["mode"] = u, j["type"], j["mode"]
        out.append(v)
    return out, info


def gen_vectors(ctx, units, modes, rep, nshort=0, nbits=0, select=None, mode_select=None):
    """TLC: stimuli + expected results for every (unit, type, mode).  Returns list of vector dicts
    with 'unit' and 'type' attached, and the info records per unit."""
    jobs = []
    for k, u in enumerate(units):
        jobs.append(dict(d=k + 1, type="", anc="", mode="info", n=0))
        for t in u.types():
            if select and not select(u, t):
                continue
            for m in modes:
                if mode_select and not mode_select(u, t, m):
                    continue
                n = nshort if m == "decx" else nbits if m == "encx" else 0
                jobs.append(dict(d=k + 1, type=t, anc="", mode=m, n=n))
    return run_jobs(ctx, units, jobs, rep)


def rust_requests(vecs):
    reqs = []
    for i, v in enumerate(vecs):
        v["rid"] = i
        if v["k"] == "enc":
            reqs.append(dict(rid=i, desc=v["unit"].name, type=v["type"], op="encode", value=node_to_native(v["val"]),
                             prefix=PREFIX))
        else:
            reqs.append(dict(rid=i, desc=v["unit"].name, type=v["type"], op="decode", bytes=v["bytes"]))
    return reqs


def hexs(b):
    return "".join("%02x" % x for x in b)


def _abn(x):
    return isinstance(x, dict) and "abnormal" in x


def judge_enc(v, resp):
    """compare one encode observation with the spec's expectation; yields (property, kind, detail)"""
    F = set(v["faults"])
    if F & {"Unsupported", "BadValue"}:
        return
    r = resp.get("r", {})
    if "abnormal" in resp or _abn(r):
        yield ("C05", "encode_abnormal:" + str((r if _abn(r) else resp).get("abnormal")), r)
        return
    if "unconstructible" in r:
        if not F & {"InvalidEnumValue"} and not F:
            yield ("TOOL", "unconstructible", r)
        return
    if "InvalidEnumValue" in F:
        return
    for k in ("vec", "bytes", "prefixed", "bytesmut", "len"):
        if _abn(r.get(k)):
            yield ("C05", "encode_abnormal:%s:%s" % (k, r[k].get("abnormal")), r[k])
            return
    if _abn(r.get("roundtrip")):
        # decode_full(encode(v)) did not return: a decoder fault (C01), and no round trip (C02)
        yield ("C01", "decode_abnormal:roundtrip:%s" % r["roundtrip"].get("abnormal"), r["roundtrip"])
        if v.get("rt"):
            yield ("C02", "roundtrip_abnormal:%s" % r["roundtrip"].get("abnormal"), r["roundtrip"])
        r = dict(r, roundtrip={"skip": True})
    vec = r["vec"]
    if not F:
        if "ok" not in vec:
            yield ("C03", "enc_rejects_wellformed:" + str(vec.get("err")), vec)
            yield ("C02", "enc_rejects_wellformed:" + str(vec.get("err")), vec)
        elif vec["ok"] != v["bytes"]:
            yield ("C03", "enc_bytes", {"expected": hexs(v["bytes"]), "got": hexs(vec["ok"])})
    else:
        if "ok" in vec:
            yield ("C05", "enc_accepts:" + "+".join(sorted(F)), {"got": hexs(vec["ok"])})
        elif vec.get("err") not in F:
            yield ("C05", "enc_class:%s_not_in_%s" % (vec.get("err"), "+".join(sorted(F))), vec)
    if "ok" in vec:
        if r["len"] != len(vec["ok"]):
            yield ("C05", "encoded_len", {"encoded_len": r["len"], "written": len(vec["ok"])})
        if r["bytes"].get("ok") != vec["ok"]:
            yield ("C18", "encode_to_bytes_differs", r["bytes"])
        if r["prefixed"].get("ok") != PREFIX + vec["ok"]:
            yield ("C18", "encode_into_vec_prefix", r["prefixed"])
        if r["bytesmut"].get("ok") != PREFIX + vec["ok"]:
            yield ("C18", "encode_into_bytesmut_prefix", r["bytesmut"])
    else:
        if "err" not in r["bytes"] or "err" not in r["prefixed"] or "err" not in r["bytesmut"]:
            yield ("C18", "encode_variants_disagree_on_error", r)
        elif r["prefixed"].get("buf", PREFIX)[:len(PREFIX)] != PREFIX:
            yield ("C18", "encode_error_disturbs_prefix", r["prefixed"])
    if v.get("rt") and "ok" in vec:
        rt = r["roundtrip"]
        if rt and rt.get("skip"):
            pass
        elif not rt or "ok" not in rt:
            yield ("C02", "roundtrip_decode_fails:" + str((rt or {}).get("err")), rt)
        elif not rt.get("same"):
            yield ("C02", "roundtrip_value_differs", rt)


def judge_dec(v, resp):
    F, FULL = set(v["faults"]), set(v["full"])
    if "Unsupported" in F | FULL:
        return
    r = resp.get("r", {})
    if "abnormal" in resp or _abn(r):
        yield ("C01", "decode_abnormal:" + str((r if _abn(r) else resp).get("abnormal")), r)
        return
    d, f, m, re_ = r["decode"], r["decode_full"], r["decode_mut"], r.get("reencode")
    for k, x in (("decode", d), ("decode_full", f), ("decode_mut", m), ("reencode", re_)):
        if _abn(x):
            yield ("C01", "decode_abnormal:%s:%s" % (k, x.get("abnormal")), x)
            return
    want = node_to_native(v["val"]) if not F else None
    n = len(v["bytes"])
    # C01: memory in proportion to the input (the harness reports the peak of live allocations of the request:
    # the three decodes, the re-encoding and their JSON renderings; a kilobyte-sized input stays far below this)
    peak = resp.get("peak")
    if isinstance(peak, int) and peak > (1 << 20) + 8192 * n:
        yield ("C01", "allocation_out_of_proportion", {"peak_bytes": peak, "input_octets": n})
    # decode
    if not F:
        if "ok" not in d:
            yield ("C04", "decode_rejects:" + str(d.get("err")), d)
        else:
            if d["rest"] != v["rest"]:
                yield ("C04", "decode_rest", {"expected": v["rest"], "got": d["rest"]})
            elif not same_native(d["ok"], want):
                yield ("C04", "decode_value", {"expected": want, "got": d["ok"]})
            if not d.get("suffix"):
                yield ("C01", "remainder_not_suffix", d)
    else:
        if "ok" in d:
            yield ("C04", "decode_accepts:" + "+".join(sorted(F)), d)
        elif RUST_DEC.get(d["err"], d["err"]) not in F:
            yield ("C04", "decode_class:%s_not_in_%s" % (d["err"], "+".join(sorted(F))), d)
    # decode_full
    if not FULL:
        if "ok" not in f:
            yield ("C04", "decode_full_rejects:" + str(f.get("err")), f)
        else:
            if not same_native(f["ok"], want):
                yield ("C04", "decode_full_value", {"expected": want, "got": f["ok"]})
            if not v["refaults"]:
                if not re_ or re_.get("ok") != v["reenc"]:
                    yield ("C04", "reencode", {"expected": hexs(v["reenc"]), "got": re_})
    else:
        if "ok" in f:
            yield ("C04", "decode_full_accepts:" + "+".join(sorted(FULL)), f)
        elif RUST_DEC.get(f["err"], f["err"]) not in FULL:
            yield ("C04", "decode_full_class:%s_not_in_%s" % (f["err"], "+".join(sorted(FULL))), f)
    # C18 laws between the derived methods (as observed, independent of the spec)
    if "ok" in d:
        if d["rest"] == 0 and not ("ok" in f and same_native(f["ok"], d["ok"])):
            yield ("C18", "decode_full_differs_from_decode", {"decode": d, "decode_full": f})
        if d["rest"] > 0 and f.get("err") != "TrailingBytesError":
            yield ("C18", "decode_full_ignores_remainder", {"decode": d, "decode_full": f})
        if not ("ok" in m and m["after"] == d["rest"] and same_native(m["ok"], d["ok"])):
            yield ("C18", "decode_mut_differs_from_decode", {"decode": d, "decode_mut": m})
    else:
        if f.get("err") != d.get("err"):
            yield ("C18", "decode_full_error_differs", {"decode": d, "decode_full": f})
        if "err" not in m or m.get("err") != d.get("err"):
            yield ("C18", "decode_mut_error_differs", {"decode": d, "decode_mut": m})
        elif not m.get("untouched") or m.get("after") != n:
            yield ("C18", "decode_mut_moves_slice_on_error", m)
            yield ("C01", "decode_mut_moves_slice_on_error", m)


def labelsig(v, detail):
    """what kind of stimulus it was (from the label TLC attached) + normalised panic message"""
    import re
    lab = ":".join(str(x) for x in (v.get("label") or []))
    msg = ""
    if isinstance(detail, dict) and detail.get("msg"):
        msg = "|" + re.sub(r"[0-9]+", "N", detail["msg"])[:80]
    return lab + msg


def vec_replay(v, detail):
    rep = {"backend": "rust", "desc": v["unit"].desc, "pdl": v["unit"].src, "type": v["type"], "op": v["k"],
           "label": v.get("label"), "observed": detail}
    if v["k"] == "enc":
        rep["stimulus"] = {"value": node_to_native(v["val"])}
        rep["expected"] = {"faults": v["faults"], "bytes": hexs(v["bytes"])}
    else:
        rep["stimulus"] = {"bytes": hexs(v["bytes"])}
        rep["expected"] = {"decode_faults": v["faults"], "decode_full_faults": v["full"],
                           "value": node_to_native(v["val"]) if not v["faults"] else None, "rest": v["rest"]}
    return rep


# ------------------------------------------------------------------------------ direction T: random stimuli, TLC judges
def mutate_bytes(rng, base, maxlen=40):
    b = list(base)
    k = rng.randrange(8)
    if k == 0 or not b:
        return [rng.randrange(256) for _ in range(rng.randrange(0, max(4, min(maxlen, 2 * len(b) + 3))))]
    if k == 1:
        return b[:rng.randrange(len(b) + 1)]
    if k == 2:
        return b + [rng.randrange(256) for _ in range(rng.randrange(1, 4))]
    if k == 3:
        i = rng.randrange(len(b))
        b[i] ^= 1 << rng.randrange(8)
        return b
    if k == 4:
        i = rng.randrange(len(b))
        n = rng.choice([1, 2, 3, 4, 8])
        x = rng.choice([0, 255])
        for j in range(i, min(len(b), i + n)):
            b[j] = x
        return b
    if k == 5:
        i = rng.randrange(len(b))
        b[i] = rng.randrange(256)
        return b
    if k == 6:
        i = rng.randrange(len(b) + 1)
        return b[:i] + [rng.randrange(256) for _ in range(rng.randrange(1, 5))] + b[i:]
    i = rng.randrange(len(b))
    j = rng.randrange(i, len(b))
    return b[:i] + b[j:]


def mutate_native(rng, v, key=None):
    if v is None:
        return None
    if isinstance(v, int):
        k = rng.randrange(6)
        if k == 0:
            return v
        if k == 1:
            return rng.randrange(256)
        if k == 2:
            return rng.choice([0, 1, 0x7f, 0x80, 0xff, 0x100, 0xffff, 0x10000, 0xffffff, 0x1000000, 0xffffffff,
                               1 << 32, (1 << 63) - 1, 1 << 63, (1 << 64) - 1])
        return rng.getrandbits(rng.choice([3, 8, 12, 16, 24, 32, 48, 64]))
    if isinstance(v, list):
        if key == "payload":
            return [rng.randrange(256) for _ in range(rng.choice([0, 1, 2, 3, 7, 8, 16, 31, 255, 256]))]
        out = [mutate_native(rng, x) for x in v]
        k = rng.randrange(5)
        if k == 0 and out:
            out = out + [out[rng.randrange(len(out))]] * rng.choice([1, 2, 5])
        elif k == 1 and out:
            out = out[:rng.randrange(len(out))]
        return out
    if isinstance(v, dict):
        return {k: mutate_native(rng, x, k) for k, x in v.items()}
    return v


def rust_res_event(x, decode):
    """normalise one harness sub-result into the uniform event result record"""
    ev = dict(kind="abnormal", cls="", val=native_to_node(None), rest=0, bytes=[])
    if not isinstance(x, dict) or "abnormal" in x:
        return ev
    if "ok" in x:
        ev["kind"] = "ok"
        if decode:
            ev["val"] = native_to_node(x["ok"])
            ev["rest"] = x.get("rest", 0)
        else:
            ev["bytes"] = x["ok"]
    else:
        ev["kind"] = "err"
        ev["cls"] = RUST_DEC.get(x.get("err"), x.get("err") or "")
    return ev


def t_stage(prop, ctx, units, bins, vecs, info, rep, per_type, only=None):
    """seeded random stimuli -> real code -> recorded events -> TLC accepts or rejects each"""
    rng = random.Random(ctx.seed * 7919 + 17 + (hash(min(only)) % 1000 if only else 0) * 0)
    pos = {u.name: k + 1 for k, u in enumerate(units)}
    base_bytes, base_vals = {}, {}
    for v in vecs:
        key = (v["unit"].name, v["type"])
        if v["k"] == "dec" and v.get("label") == ["valid"]:
            base_bytes.setdefault(key, []).append(v["bytes"])
        if v["k"] == "enc":
            if not v["faults"]:
                base_bytes.setdefault(key, []).append(v["bytes"])
            base_vals.setdefault(key, []).append(node_to_native(v["val"]))
    want_dec = prop in ("C01", "C04", "C18")
    want_enc = prop in ("C02", "C03", "C05", "C18")
    reqs = []
    for u in units:
        if u.name not in bins or not info.get(u.name, {}).get("rust") or (only is not None and u.name not in only):
            continue
        for t in u.types():
            key = (u.name, t)
            if want_dec:
                bb = base_bytes.get(key) or [[]]
                for _ in range(per_type):
                    reqs.append(dict(rid=len(reqs), desc=u.name, type=t, op="decode",
                                     bytes=mutate_bytes(rng, rng.choice(bb))))
            if want_enc and base_vals.get(key):
                for _ in range(per_type):
                    reqs.append(dict(rid=len(reqs), desc=u.name, type=t, op="encode", prefix=PREFIX,
                                     value=mutate_native(rng, rng.choice(base_vals[key]))))
    obs = run_rust(bins, reqs, tag="rnd")
    events, origin = [], []
    for r in reqs:
        o = obs.get(r["rid"], {})
        rr = o.get("r", {})
        if r["op"] == "decode":
            top_abn = "abnormal" in o or _abn(rr)
            for op in ("decode", "decode_full"):
                x = {"abnormal": 1} if top_abn else rr.get(op)
                events.append(dict(op=op, d=pos[r["desc"]], type=r["type"], bytes=r["bytes"], val=native_to_node(None),
                                   res=rust_res_event(x, True)))
                origin.append((r, o, op))
        else:
            if "unconstructible" in rr:
                continue
            top_abn = "abnormal" in o or _abn(rr)
            x = {"abnormal": 1} if top_abn else rr.get("vec")
            events.append(dict(op="encode", d=pos[r["desc"]], type=r["type"], bytes=[], val=native_to_node(r["value"]),
                               res=rust_res_event(x, False)))
            origin.append((r, o, "encode"))
    if not events:
        return
    tr = os.path.join(ctx.tmp, "trace.ndjson")
    write_ndjson(tr, events)
    descs_p = os.path.join(ctx.tmp, "descs.ndjson")
    write_ndjson(descs_p, [u.desc for u in units])
    lines, stats = tlc("Trace_Codec", "Trace_Codec.cfg", dict(DESCS=descs_p, TRACE=tr), tag="trace")
    rep.tlc_stats(stats)
    rejected = {x["l"]: x for x in parse_tagged(lines, "REJECT")}
    rep.notes["trace_events"] = rep.notes.get("trace_events", 0) + len(events)
    rep.notes["trace_events_rejected"] = rep.notes.get("trace_events_rejected", 0) + len(rejected)
    for i, ev in enumerate(events):
        rep.validated()
        if (i + 1) not in rejected:
            continue
        r, o, op = origin[i]
        exp = rejected[i + 1]["expected"]
        res = ev["res"]
        if res["kind"] == "abnormal":
            owner = "C01" if op != "encode" else "C05"
            kind = "%s_abnormal:random" % ("decode" if op != "encode" else "encode")
        elif op == "encode":
            owner = "C03" if not exp["faults"] else "C05"
            kind = "trace_encode_%s_expected_%s" % (res["kind"] + (":" + res["cls"] if res["cls"] else ""),
                                                    "+".join(sorted(exp["faults"])) or "ok")
        else:
            owner = "C04"
            kind = "trace_%s_%s_expected_%s" % (op, res["kind"] + (":" + res["cls"] if res["cls"] else ""),
                                                "+".join(sorted(exp["faults"])) or "ok")
        if owner != prop and not (prop == "C18" and False):
            continue
        detail = o.get("r", o)
        msg = ""
        if isinstance(detail, dict):
            for kk in ("decode", "vec"):
                if isinstance(detail.get(kk), dict) and detail[kk].get("msg"):
                    msg = detail[kk]["msg"]
            if detail.get("msg"):
                msg = detail["msg"]
        fp = "%s|rust|%s|%s|%s|random%s" % (prop, r["desc"], r["type"], kind,
                                            ("|" + __import__("re").sub(r"[0-9]+", "N", msg)[:80]) if msg else "")
        u = units[pos[r["desc"]] - 1]
        rep.violation(fp, {"backend": "rust", "desc": u.desc, "pdl": u.src, "type": r["type"], "op": op,
                           "stimulus": {"bytes": hexs(r["bytes"])} if "bytes" in r else {"value": r["value"]},
                           "expected": {"faults": exp["faults"], "value": node_to_native(exp["val"]),
                                        "rest": exp["rest"], "bytes": hexs(exp["bytes"])},
                           "observed": detail, "direction": "trace"})


def stream_stage(prop, ctx, units, bins, vecs, info, rep, per_type):
    """histories with state (spec/Trace_Stream.tla): packet after packet decoded from one slice with decode_mut, value
    after value encoded into one buffer; every recorded history must be a behaviour of the specification"""
    rng = random.Random(ctx.seed * 104729 + 71)
    pos = {u.name: k + 1 for k, u in enumerate(units)}
    base_bytes, base_vals = {}, {}
    for v in vecs:
        key = (v["unit"].name, v["type"])
        if v["k"] == "enc":
            if not v["faults"] and len(v["bytes"]) <= 40:
                base_bytes.setdefault(key, []).append(v["bytes"])
            base_vals.setdefault(key, []).append((node_to_native(v["val"]), bool(v["faults"])))
    reqs = []
    for u in units:
        if u.name not in bins or not info.get(u.name, {}).get("rust"):
            continue
        for t in u.types():
            key = (u.name, t)
            bb, bv = base_bytes.get(key), base_vals.get(key)
            if not bb or not bv:
                continue
            for _ in range(per_type):
                parts = [rng.choice(bb) for _ in range(rng.choice([1, 2, 3, 4]))]
                if rng.random() < 0.4:
                    k = rng.randrange(len(parts))
                    parts[k] = mutate_bytes(rng, parts[k])
                data = [x for p_ in parts for x in p_][:160]
                vals = [rng.choice(bv)[0] for _ in range(rng.choice([1, 2, 3]))]
                if rng.random() < 0.3:
                    k = rng.randrange(len(vals))
                    vals[k] = mutate_native(rng, vals[k])
                reqs.append(dict(rid=len(reqs), desc=u.name, type=t, op="stream", bytes=data, values=vals, prefix=PREFIX, max=8))
    if not reqs:
        return
    obs = run_rust(bins, reqs, tag="stream")
    runs, meta = [], {}
    NONE = native_to_node(None)
    for r in reqs:
        o = obs.get(r["rid"], {})
        rr = o.get("r", {})
        u = units[pos[r["desc"]] - 1]
        if "abnormal" in o or not isinstance(rr, dict) or "abnormal" in rr or "events" not in rr:
            # a panic / abort inside a call is a single-call matter (C01 / C05 own it and have their own stimuli)
            rep.notes["stream_histories_abnormal_owned_by_C01_C05"] = rep.notes.get("stream_histories_abnormal_owned_by_C01_C05", 0) + 1
            continue
        evs = []
        for e in rr["events"]:
            res = rust_res_event(e.get("res"), e["op"] == "decode_mut")
            if e["op"] == "encode_into" and isinstance(e.get("res"), dict) and "ok" in e["res"]:
                res["kind"] = "ok"
            evs.append(dict(op=e["op"], res=dict(kind=res["kind"], cls=res["cls"], val=res["val"]),
                            after=e.get("after", 0), val=native_to_node(e["value"]) if "value" in e else NONE,
                            buf=e.get("buf", [])))
        rid = len(runs)
        runs.append(dict(rid=rid, d=pos[r["desc"]], type=r["type"], bytes=r["bytes"], prefix=r["prefix"], events=evs))
        meta[rid] = (r, rr)
    # canaries: recorded histories with one field corrupted (the slice one octet further than reported / the caller's
    # prefix disturbed) must be rejected - a trace specification that accepted them would be vacuous
    canaries = {}
    for run in runs[:400]:
        if len(canaries) >= 40:
            break
        evs = run["events"]
        if len(canaries) % 2 == 0:
            k = next((i for i, e in enumerate(evs) if e["op"] == "decode_mut" and e["res"]["kind"] == "ok" and e["after"] > 0), None)
        else:
            k = next((i for i, e in enumerate(evs) if e["op"] == "encode_into" and e["buf"]), None)
        if k is not None:
            canaries[len(runs) + len(canaries)] = (run["rid"], k)
    tr = os.path.join(ctx.tmp, "streams.ndjson")
    allruns = list(runs)
    for rid in sorted(canaries):
        src, k = canaries[rid]
        c = json.loads(json.dumps(runs[src]))
        evs = c["events"][:k + 1]
        if evs[k]["op"] == "decode_mut":
            evs[k]["after"] -= 1
        else:
            evs[k]["buf"][0] ^= 0xFF
        c["events"], c["rid"] = evs, rid
        allruns.append(c)
    write_ndjson(tr, allruns)
    descs_p = os.path.join(ctx.tmp, "descs.ndjson")
    write_ndjson(descs_p, [u.desc for u in units])
    lines, stats = tlc("Trace_Stream", "Trace_Stream.cfg", dict(DESCS=descs_p, TRACE=tr), tag="stream")
    rep.tlc_stats(stats)
    reached, why = {}, {}
    for x in parse_tagged(lines, "AT"):
        if x["l"] >= reached.get(x["rid"], 0):
            reached[x["rid"]] = x["l"]
            why[x["rid"]] = x["why"]
    # (a canary is only meaningful if its uncorrupted source was accepted)
    live = [rid for rid, (src, k) in canaries.items() if reached.get(src, 1) == len(runs[src]["events"]) + 1]
    accepted_canaries = [rid for rid in live if reached.get(rid, 1) == canaries[rid][1] + 2]
    if accepted_canaries:
        raise ToolError("Trace_Stream accepted %d corrupted histories (vacuous trace specification?)" % len(accepted_canaries))
    rep.notes["stream_canaries_rejected"] = len(live)
    nev = 0
    for run in runs:
        rep.validated()
        nev += len(run["events"])
        at = reached.get(run["rid"], 1)
        if at == len(run["events"]) + 1:
            continue
        if why.get(run["rid"]) == "result":
            # what the single call returned differs from the reference: C03 / C04 / C05 own it (own stimuli, own findings)
            rep.notes["stream_histories_result_mismatch_owned_elsewhere"] = rep.notes.get("stream_histories_result_mismatch_owned_elsewhere", 0) + 1
            continue
        r, rr = meta[run["rid"]]
        bad = run["events"][at - 1]
        u = units[pos[r["desc"]] - 1]
        rep.violation("C18|rust|%s|%s|stream_%s_%s|random" % (r["desc"], r["type"], bad["op"], bad["res"]["kind"] + (":" + bad["res"]["cls"] if bad["res"]["cls"] else "")),
                      {"backend": "rust", "desc": u.desc, "pdl": u.src, "type": r["type"], "op": "stream",
                       "stimulus": {"bytes": hexs(r["bytes"]), "values": r["values"], "prefix": hexs(r["prefix"])},
                       "observed": {"events": rr["events"][:at], "first_event_that_is_no_step": at}, "direction": "trace"})
    rep.notes["stream_histories"] = len(runs)
    rep.notes["stream_events"] = nev


CODEC_MODES = {
    "C01": ["dec"], "C02": ["enc"], "C03": ["enc"], "C04": ["dec"], "C05": ["enc", "bad"], "C18": ["enc", "dec", "bad"],
}


def prepare_rust_units(ctx, tier, want=("analyze", "rust")):
    units = make_units(kit.build(tier) + builder_descs(tier, ctx.seed, "rust"))
    compile_units(ctx.driver(), units, list(want))
    bins = build_rust_harness(units)
    return units, bins


def check_rust_codec(prop, ctx):
    rep = Report(prop, ctx.tier, ctx.seed)
    units, bins = prepare_rust_units(ctx, ctx.tier)
    modes = list(CODEC_MODES[prop])
    if ctx.tier == "thorough" and prop in ("C03", "C02", "C17"):
        modes.append("encx")        # every value of every type with at most 12 variable bits
    if ctx.tier == "thorough" and prop in ("C04", "C01"):
        modes.append("decx")        # every byte string of length <= 2 for the bit-field-only descriptions
    # (every string of length <= 2 is 65 793 vectors per type and endianness: a handful of descriptions, one per family)
    small = ("bf_4_4", "bf_1_1_6", "w9_", "enum_er", "enum_eo", "pl_siz3", "arr_u8_cnt", "opt_shared", "inh_by_size")
    skipped = 0
    kinds = {}
    nvec = nusable = 0
    # the units are worked through in slices: vectors, observations and judgements of one slice are dropped before the
    # next one starts (the thorough tier does not fit in memory otherwise)
    step = 200 if ctx.tier == "quick" else 60
    for lo in range(0, len(units), step):
        chunk = set(u.name for u in units[lo:lo + step])
        vecs, info = gen_vectors(ctx, units, modes, rep, nshort=2, nbits=12, select=lambda u, t: u.name in chunk,
                                 mode_select=lambda u, t, m: m != "decx" or u.desc["name"].startswith(small))
        usable = [v for v in vecs if info.get(v["unit"].name, {}).get("rust") and v["unit"].name in bins]
        nvec += len(vecs)
        nusable += len(usable)
        obs = run_rust(bins, rust_requests(usable))
        for v in usable:
            o = obs.get(v["rid"])
            if o is None:
                raise ToolError("no observation for vector %d" % v["rid"])
            judge = judge_enc if v["k"] == "enc" else judge_dec
            n = 0
            for (p, kind, detail) in judge(v, o):
                if p == "TOOL":
                    skipped += 1
                    continue
                if p != prop:
                    continue
                n += 1
                fp = "%s|rust|%s|%s|%s|%s" % (prop, v["unit"].name, v["type"], kind, labelsig(v, detail))
                rep.violation(fp, vec_replay(v, detail))
            rep.validated()
            kinds[v["label"][0] if v.get("label") else "?"] = kinds.get(v["label"][0] if v.get("label") else "?", 0) + 1
            if n == 0 and rep.coverage["traces_validated_against_impl"] % 997 == 1:
                rep.sample({"desc": v["unit"].name, "type": v["type"], "op": v["k"], "label": v.get("label"),
                            "stimulus": hexs(v["bytes"]) if v["k"] == "dec" else node_to_native(v["val"]),
                            "expected": v["faults"] if v["k"] == "enc" else v["full"]})
        del obs
        if prop != "C18":
            t_stage(prop, ctx, units, bins, vecs, info, rep, 8 if ctx.tier == "quick" else 120, only=chunk)
        else:
            stream_stage(prop, ctx, units, bins, vecs, info, rep, 4 if ctx.tier == "quick" else 40)
        del vecs, usable
    rep.notes["descriptions"] = len(units)
    rep.notes["descriptions_rust_supported_and_compiled"] = len(bins)
    rep.notes["vectors_by_label"] = kinds
    rep.notes["vectors_outside_supported_class"] = nvec - nusable
    rep.notes["unconstructible_values_skipped"] = skipped
    rep.assumptions += [
        "expected results are computed by TLC from spec/PdlCodec.tla (reference.md transcription); see DESIGN.md App. A",
        "only descriptions inside RustSupported (spec/PdlSupport.tla) are judged",
        "error class must be a member of the specification's fault set (exact for single-fault inputs)",
    ]
    return rep.finish()


# ------------------------------------------------------------------------------ C15 enums
def check_c15(ctx):
    rep = Report("C15", ctx.tier, ctx.seed)
    units, bins = prepare_rust_units(ctx, ctx.tier)
    nexh = 16 if ctx.tier == "thorough" else 10
    jobs = []
    seen = set()
    for k, u in enumerate(units):
        jobs.append(dict(d=k + 1, type="", mode="info", n=0))
        for e in u.enums():
            sig = json.dumps(e, sort_keys=True)
            if (sig, u.desc["endian"]) in seen or not 1 <= e["width"] <= 64:
                continue
            seen.add((sig, u.desc["endian"]))
            jobs.append(dict(d=k + 1, type=e["id"], mode="enum", n=nexh))
    vecs, info = run_jobs(ctx, units, jobs, rep)
    usable = [v for v in vecs if v["unit"].name in bins]
    reqs = []
    for i, v in enumerate(usable):
        v["rid"] = i
        reqs.append(dict(rid=i, desc=v["unit"].name, type=v["type"], op="enum_from", x=pdl.unlimbs(v["x"])))
    # defaults and widening conversions, once per enum
    extra = []
    per_enum = {}
    for v in usable:
        per_enum.setdefault((v["unit"].name, v["type"]), v)
    rid = len(reqs)
    for (un, en), v in per_enum.items():
        extra.append(dict(rid=rid, desc=un, type=en, op="enum_default", _v=v)); rid += 1
    widen_ops = {}
    for v in usable:
        if v["class"] == "invalid":
            continue
        w = v["width"]
        b = backing(w)
        for n in (8, 16, 32, 64):
            for sign in ("i", "u"):
                if (sign == "i" and n > w) or (sign == "u" and n >= w and n != b):
                    extra.append(dict(rid=rid, desc=v["unit"].name, type=v["type"], op="widen:%s%d" % (sign, n),
                                      x=pdl.unlimbs(v["x"]), _v=v)); rid += 1
    obs = run_rust(bins, reqs + [{k: x[k] for k in x if k != "_v"} for x in extra], tag="enum")
    for v in usable:
        o = obs[v["rid"]]["r"]
        x = pdl.unlimbs(v["x"])
        kind = None
        if _abn(o):
            kind = "abnormal:" + str(o.get("abnormal"))
        elif "unrepresentable" in o:
            rep.validated()
            continue
        elif v["class"] == "invalid":
            if "err" not in o:
                kind = "accepts_invalid:" + ("above" if v["label"] == ["above"] else "undeclared")
            elif o["err"] != x:
                kind = "error_value_differs"
        else:
            if "ok" not in o:
                kind = "rejects_valid:" + v["class"]
            elif o["ok"] != x:
                kind = "into_differs"
            elif not o.get("stable"):
                kind = "unstable_variant"
            elif ("(" in o.get("dbg", "")) != (v["class"] in ("range", "other")):
                kind = "wrong_variant_kind:%s" % v["class"]
        rep.validated()
        if kind:
            rep.violation("C15|rust|%s|%s|%s" % (v["unit"].name, v["type"], kind),
                          {"backend": "rust", "desc": v["unit"].desc, "pdl": v["unit"].src, "enum": v["type"], "x": x,
                           "expected": {"class": v["class"], "tag": v["tag"]}, "observed": o})
        elif rep.coverage["traces_validated_against_impl"] % 499 == 1:
            rep.sample({"desc": v["unit"].name, "enum": v["type"], "x": x, "expected_class": v["class"], "tag": v["tag"]})
    for xr in extra:
        v = xr["_v"]
        o = obs[xr["rid"]]["r"]
        kind = None
        if _abn(o):
            kind = "abnormal:" + str(o.get("abnormal"))
        elif xr["op"] == "enum_default":
            if o.get("ok") != pdl.unlimbs(v["dflt"]):
                kind = "default_value"
        else:
            if o.get("ok") != str(xr["x"]):
                kind = "widening_changes_value:" + xr["op"]
        rep.validated()
        if kind:
            rep.violation("C15|rust|%s|%s|%s" % (v["unit"].name, v["type"], kind),
                          {"backend": "rust", "desc": v["unit"].desc, "pdl": v["unit"].src, "enum": v["type"], "op": xr["op"],
                           "x": xr.get("x"), "expected_default": pdl.unlimbs(v["dflt"]), "observed": o})
    rep.notes["enums"] = len(per_enum)
    rep.notes["exhaustive_up_to_width"] = nexh
    rep.coverage["exhaustive"] = False
    rep.assumptions += ["expected classification computed by TLC from spec/PdlEnum.tla",
                        "Rust: named tag vs range/default variant observed through Debug (tuple variant or not)"]
    return rep.finish()


# ------------------------------------------------------------------------------ C06 inheritance
def check_c06(ctx):
    rep = Report("C06", ctx.tier, ctx.seed)
    units, bins = prepare_rust_units(ctx, ctx.tier)
    jobs = []
    for k, u in enumerate(units):
        jobs.append(dict(d=k + 1, type="", anc="", mode="info", n=0))
        if u.name not in bins:
            continue
        for t in u.types():
            if u.children(t):
                jobs.append(dict(d=k + 1, type=t, anc=t, mode="spec", n=0))
            ch = u.chain(t)
            for anc in ch[:-1]:
                jobs.append(dict(d=k + 1, type=t, anc=anc["id"], mode="down", n=0))
                jobs.append(dict(d=k + 1, type=t, anc=anc["id"], mode="up", n=0))
    vecs, info = run_jobs(ctx, units, jobs, rep)
    usable = [v for v in vecs if info.get(v["unit"].name, {}).get("rust") and v["unit"].name in bins]
    reqs = []
    for i, v in enumerate(usable):
        v["rid"] = i
        j = jobs[v["job"] - 1]
        v["anc"] = j["anc"]
        if v["k"] == "spec":
            reqs.append(dict(rid=i, desc=v["unit"].name, type=v["anc"], op="specialize", bytes=v["bytes"]))
        elif v["k"] == "down":
            reqs.append(dict(rid=i, desc=v["unit"].name, type=v["type"], op="down_from:" + v["anc"], bytes=v["bytes"]))
        else:
            reqs.append(dict(rid=i, desc=v["unit"].name, type=v["type"], op="up_to:" + v["anc"],
                             value=node_to_native(v["val"])))
    obs = run_rust(bins, reqs, tag="inh")

    def viol(v, kind, detail):
        fp = "C06|rust|%s|%s<-%s|%s|%s" % (v["unit"].name, v["type"], v["anc"], kind, labelsig(v, detail))
        rp = {"backend": "rust", "desc": v["unit"].desc, "pdl": v["unit"].src, "op": v["k"], "type": v["type"],
              "ancestor": v["anc"], "label": v.get("label"), "observed": detail}
        if "bytes" in v:
            rp["stimulus"] = {"bytes": hexs(v["bytes"])}
        if v["k"] == "up":
            rp["stimulus"] = {"value": node_to_native(v["val"])}
        rp["expected"] = {k: v[k] for k in ("pfaults", "faults", "consfirst") if k in v}
        if v["k"] == "spec":
            rp["expected"]["outcomes"] = [{"child": o["child"], "faults": o["faults"],
                                           "value": node_to_native(o["val"])} for o in v["outcomes"]]
        rep.violation(fp, rp)

    for v in usable:
        o = obs[v["rid"]]
        r = o.get("r", {})
        rep.validated()
        if "abnormal" in o or _abn(r):
            viol(v, "abnormal:" + str((r if _abn(r) else o).get("abnormal")), r)
            continue
        if v["k"] in ("spec", "down"):
            if v["pfaults"]:
                continue          # the parent itself is rejected: C04's business
            if "parent_err" in r:
                continue
        if v["k"] == "spec":
            if not v["unambiguous"]:
                continue
            outs = v["outcomes"]
            if "err" in r:
                cls = RUST_DEC.get(r["err"], r["err"])
                if not any(cls in x["faults"] for x in outs):
                    viol(v, "specialize_error:%s" % r["err"], r)
            elif r.get("ok") == "None":
                if not any(x["child"] == "" for x in outs):
                    viol(v, "specialize_none_but_child_matches:" + "+".join(sorted(x["child"] for x in outs)), r)
            else:
                (cid, cval), = r["ok"].items()
                match = [x for x in outs if x["child"] == cid]
                if not match:
                    viol(v, "specialize_wrong_child:%s_expected_%s" % (cid, "+".join(sorted(x["child"] or "None" for x in outs))), r)
                elif match[0]["faults"]:
                    viol(v, "specialize_accepts_unparsable_child:" + cid, r)
                elif not same_native(cval, node_to_native(match[0]["val"])):
                    viol(v, "specialize_child_value:" + cid, {"expected": node_to_native(match[0]["val"]), "got": cval})
        elif v["k"] == "down":
            F = set(v["faults"])
            if "Unsupported" in F:
                continue
            if not F:
                if "ok" not in r:
                    viol(v, "down_rejects:" + str(r.get("err")), r)
                elif not same_native(r["ok"], node_to_native(v["val"])):
                    viol(v, "down_value", {"expected": node_to_native(v["val"]), "got": r["ok"]})
                # (parent -> child -> parent is *not* demanded to be the identity: the parent's payload may carry
                #  reserved bits or padding that the canonical re-encoding clears; C06 states child -> parent -> child)
            else:
                if "ok" in r:
                    viol(v, "down_accepts:" + "+".join(sorted(F)), r)
                else:
                    cls = RUST_DEC.get(r["err"], r["err"])
                    if cls not in F:
                        viol(v, "down_class:%s_not_in_%s" % (r["err"], "+".join(sorted(F))), r)
                    elif v["consfirst"] and cls != "ConstraintValue":
                        viol(v, "constraint_violation_not_reported:%s" % r["err"], r)
        else:
            F = set(v["faults"])
            if F:
                continue
            if "unconstructible" in r:
                continue
            if "ok" not in r:
                viol(v, "up_fails:" + str(r.get("err")), r)
                continue
            if not same_native(r["ok"], node_to_native(v["pval"])):
                viol(v, "up_value", {"expected": node_to_native(v["pval"]), "got": r["ok"]})
            if r.get("child_bytes", {}).get("ok") != v["bytes"]:
                viol(v, "child_bytes", {"expected": hexs(v["bytes"]), "got": r.get("child_bytes")})
            if r.get("parent_bytes", {}).get("ok") != v["pbytes"]:
                viol(v, "parent_bytes_differ_from_child_bytes", {"expected": hexs(v["pbytes"]), "got": r.get("parent_bytes")})
            if v.get("rt", True) and not r.get("back", {}).get("same"):
                # (demanded only where the reference itself round-trips the child value)
                viol(v, "up_then_down_differs", r.get("back"))
        if rep.coverage["traces_validated_against_impl"] % 499 == 1:
            rep.sample({"desc": v["unit"].name, "op": v["k"], "type": v["type"], "ancestor": v["anc"],
                        "stimulus": hexs(v["bytes"]) if "bytes" in v and v["k"] != "up" else node_to_native(v["val"])})
    rep.notes["jobs"] = len(jobs)
    rep.assumptions += ["specialize(): any identified child is accepted when several match (spec/PdlInherit.tla Candidates)",
                        "an unconstrained child of non-constant size may or may not serve as the catch-all where sizes are consulted (CatchAll: both answers admitted)"]
    return rep.finish()


# ------------------------------------------------------------------------------ C17 endianness duality
def dual(b, chunks):
    """reverse the octets of each chunk (data movement only; the chunk map comes from TLC)"""
    out = list(b)
    for c in chunks:
        o, n = c["o"], c["n"]
        out[o:o + n] = out[o:o + n][::-1]
    return out


def check_c17(ctx):
    rep = Report("C17", ctx.tier, ctx.seed)
    units, bins = prepare_rust_units(ctx, ctx.tier)
    vecs, info = gen_vectors(ctx, units, ["enc"], rep)
    usable = [v for v in vecs if info.get(v["unit"].name, {}).get("rust") and v["unit"].name in bins
              and not v["faults"]]
    obs = run_rust(bins, rust_requests(usable), tag="dual")
    pairs = {}
    for v in usable:
        key = (v["unit"].desc["name"], v["type"], json.dumps(v["val"], sort_keys=True))
        pairs.setdefault(key, {})[v["unit"].desc["endian"]] = v
    for key, pr in pairs.items():
        if "little" not in pr or "big" not in pr:
            continue
        vl, vb = pr["little"], pr["big"]
        rl, rb = obs[vl["rid"]].get("r", {}), obs[vb["rid"]].get("r", {})
        bl = (rl.get("vec") or {}).get("ok") if isinstance(rl.get("vec"), dict) else None
        bb = (rb.get("vec") or {}).get("ok") if isinstance(rb.get("vec"), dict) else None
        rep.validated()
        if bl is None or bb is None:
            continue     # an encoder that fails on a well-formed value is C03/C05's finding
        kind = None
        if len(bl) != len(bb):
            kind = "length_differs"
        elif bb != dual(bl, vl["chunks"]):
            kind = "not_chunkwise_reversal"
        if kind:
            rep.violation("C17|rust|%s|%s|%s" % (key[0], key[1], kind),
                          {"backend": "rust", "desc": vl["unit"].desc, "pdl": vl["unit"].src, "type": key[1],
                           "stimulus": {"value": node_to_native(vl["val"])},
                           "expected": {"chunks": vl["chunks"], "big_from_little": hexs(dual(bl, vl["chunks"]))},
                           "observed": {"little": hexs(bl), "big": hexs(bb)}})
        elif rep.coverage["traces_validated_against_impl"] % 499 == 1:
            rep.sample({"desc": key[0], "type": key[1], "value": node_to_native(vl["val"]), "chunks": vl["chunks"],
                        "little": hexs(bl), "big": hexs(bb)})
    rep.notes["value_pairs"] = len(pairs)
    # ---- the same law for the Python and C++ serializers ("for each backend"): kit descriptions plus the builder's
    # clean C++ batch (the unit list of C14, so that the sanitizer drivers are shared)
    units2 = make_units(kit.build(ctx.tier) + builder_descs(ctx.tier, ctx.seed, 'cxxclean', n=96 if ctx.tier == 'quick' else 400))
    compile_units(ctx.driver(), units2, ["analyze", "python", "cxx"])
    jobs = []
    for k, u in enumerate(units2):
        jobs.append(dict(d=k + 1, type="", anc="", mode="info", n=0))
        if u.status != "accepted":
            continue
        for t in u.types():
            jobs.append(dict(d=k + 1, type=t, anc="", mode="enc", n=0))
    vecs2, info2 = run_jobs(ctx, units2, jobs, rep, tag="dual2")
    pyu = [u for u in units2 if u.status == "accepted" and (info2.get(u.name, {}).get("pyclean") if u.desc["name"].startswith("g_") else info2.get(u.name, {}).get("py"))]
    pmods = prepare_python(ctx, pyu)
    cbins = build_cxx(units2, info2, "asan")
    encs2 = [v for v in vecs2 if v["k"] == "enc" and not v["faults"]]
    rq = xser_requests(encs2, pmods, cbins, {})
    ob = {"py": run_py(rq["py"], tag="dualp"), "cxx": run_cxx(cbins, rq["cxx"], tag="dualc")}
    npairs = {"py": 0, "cxx": 0}
    for b in ("py", "cxx"):
        pairs2 = {}
        for i, v in enumerate(encs2):
            by = xser_bytes(b, ob[b].get(i))
            if by is None:
                continue        # a serializer that fails / has no builder for the type: C13 / C14's matter
            key = (v["unit"].desc["name"], v["type"], json.dumps(v["val"], sort_keys=True))
            pairs2.setdefault(key, {})[v["unit"].desc["endian"]] = (v, by)
        for key, pr in pairs2.items():
            if "little" not in pr or "big" not in pr:
                continue
            (vl, bl), (vb, bb) = pr["little"], pr["big"]
            rep.validated()
            if bl != vl["bytes"]:
                # the little-endian encoding itself is not the reference encoding: C13 / C14 report that; the chunk
                # map of the reference says nothing about another layout
                rep.notes["pairs_skipped_wrong_little_encoding_" + b] = rep.notes.get("pairs_skipped_wrong_little_encoding_" + b, 0) + 1
                continue
            npairs[b] += 1
            kind = None
            if len(bl) != len(bb):
                kind = "length_differs"
            elif bb != dual(bl, vl["chunks"]):
                kind = "not_chunkwise_reversal"
            if kind:
                rep.violation("C17|%s|%s|%s|%s" % (b, key[0], key[1], kind),
                              {"backend": b, "desc": vl["unit"].desc, "pdl": vl["unit"].src, "type": key[1],
                               "stimulus": {"value": node_to_native(vl["val"])},
                               "expected": {"chunks": vl["chunks"], "big_from_little": hexs(dual(bl, vl["chunks"]))},
                               "observed": {"little": hexs(bl), "big": hexs(bb)}})
    rep.notes["value_pairs_python"] = npairs["py"]
    rep.notes["value_pairs_cxx"] = npairs["cxx"]
    rep.notes["backends"] = ["rust", "python", "cxx"]
    rep.assumptions += ["chunk map computed by TLC (spec/PdlCodec.tla `chunks`); DualityInv checked on the model for every vector"]
    return rep.finish()


# ------------------------------------------------------------------------------ C13 python backend
def subset_equal(exp, got):
    """every field the specification's value names has the same value in the implementation's object"""
    if isinstance(exp, dict):
        return isinstance(got, dict) and all(k in got and subset_equal(v, got[k]) for k, v in exp.items())
    if isinstance(exp, list):
        return isinstance(got, list) and len(exp) == len(got) and all(subset_equal(a, b) for a, b in zip(exp, got))
    return exp == got and (exp is None) == (got is None)


def prepare_python(ctx, units):
    root = os.path.join(WORK, "pygen")
    os.makedirs(root, exist_ok=True)
    mods = {}
    for u in units:
        g = u.resp.get("python", {})
        if u.status == "accepted" and "ok" in g:
            p = os.path.join(root, u.mod + ".py")
            write_if_changed(p, g["ok"])
            mods[u.name] = p
    return mods


def run_py(reqs, tag="py"):
    import concurrent.futures
    reqs = list(reqs)
    n = max(1, min(NCPU, len(reqs) // 200 + 1))
    shards = [reqs[i::n] for i in range(n)]
    drv = os.path.join(VERIF, "harness", "py", "driver.py")
    res = {}
    with concurrent.futures.ThreadPoolExecutor(n) as ex:
        for r in ex.map(lambda a: run_lines("python3", a[1], "%s%d" % (tag, a[0]), args=[drv]), enumerate(shards)):
            res.update(r)
    return res


def check_c13(ctx):
    rep = Report("C13", ctx.tier, ctx.seed)
    units = make_units(kit.build(ctx.tier) + builder_descs(ctx.tier, ctx.seed, 'pyclean', n=64 if ctx.tier == 'quick' else 300))
    compile_units(ctx.driver(), units, ["analyze", "python"])
    mods = prepare_python(ctx, units)
    jobs = []
    for k, u in enumerate(units):
        jobs.append(dict(d=k + 1, type="", anc="", mode="info", n=0))
        if u.name not in mods:
            continue
        for t in u.types():
            jobs.append(dict(d=k + 1, type=t, anc="", mode="enc", n=0))
            if not u.decl(t)["parent"]:
                jobs.append(dict(d=k + 1, type=t, anc="", mode="pyparse", n=0))
    vecs, info = run_jobs(ctx, units, jobs, rep)
    usable = [v for v in vecs if info.get(v["unit"].name, {}).get("py") and v["unit"].name in mods
              and not (v["k"] == "enc" and v["faults"])]
    reqs = []
    for i, v in enumerate(usable):
        v["rid"] = i
        m = mods[v["unit"].name]
        if v["k"] == "enc":
            reqs.append(dict(rid=i, mod=m, type=v["type"], op="serialize", value=node_to_native(v["val"]), root=v["root"]))
        else:
            reqs.append(dict(rid=i, mod=m, type=v["type"], op="parse", bytes=v["bytes"]))
    obs = run_py(reqs)

    def viol(v, kind, detail):
        msg = ""
        if isinstance(detail, dict) and isinstance(detail.get("err"), dict):
            import re
            m2 = re.sub(r"'[^']*'", "'X'", detail["err"].get("msg", ""))
            m2 = re.sub(r"[A-Za-z_0-9]+\.parse\(\)", "X.parse()", m2)
            msg = "|" + detail["err"].get("cls", "") + ":" + re.sub(r"[0-9]+", "N", m2)[:60]
        fp = "C13|python|%s|%s|%s|%s%s" % (v["unit"].name, v["type"], kind,
                                          ":".join(str(x) for x in (v.get("label") or [])), msg)
        rp = {"backend": "python", "desc": v["unit"].desc, "pdl": v["unit"].src, "type": v["type"], "op": v["k"],
              "label": v.get("label"), "observed": detail}
        if v["k"] == "enc":
            rp["stimulus"] = {"value": node_to_native(v["val"])}
            rp["expected"] = {"bytes": hexs(v["bytes"]), "parse_back": {"cls": v["pyback"]["cls"],
                                                                        "value": node_to_native(v["pyback"]["val"])}}
        else:
            rp["stimulus"] = {"bytes": hexs(v["bytes"])}
            rp["expected"] = {"faults": v["faults"], "cls": v["cls"],
                              "value": node_to_native(v["val"]) if not v["faults"] else None}
        rep.violation(fp, rp)

    for v in usable:
        o = obs.get(v["rid"], {})
        r = o.get("r", {})
        rep.validated()
        if "abnormal" in o or _abn(r):
            viol(v, "abnormal:" + str((r if _abn(r) else o).get("abnormal"))[:40], r)
            continue
        u = v["unit"]
        if v["k"] == "enc":
            if "unconstructible" in r:
                rep.notes["unconstructible"] = rep.notes.get("unconstructible", 0) + 1
                continue
            if "ok" not in r:
                viol(v, "serialize_raises", r)
                continue
            ok = r["ok"]
            if ok["bytes"] != v["bytes"]:
                viol(v, "serialize_bytes", {"expected": hexs(v["bytes"]), "got": hexs(ok["bytes"])})
                continue
            d = u.decl(v["type"])
            if not d["parent"] and ok.get("size") != len(v["bytes"]):
                viol(v, "size_property", {"size": ok.get("size"), "len_serialize": len(v["bytes"])})
            pb = v["pyback"]
            if not pb["faults"]:
                back = ok.get("back", {})
                if "cls" not in back:
                    viol(v, "parse_of_serialize_raises", back)
                elif back["cls"] != pb["cls"]:
                    viol(v, "parse_of_serialize_class:%s_expected_%s" % (back["cls"], pb["cls"]), back)
                elif not subset_equal(node_to_native(pb["val"]), back["val"]):
                    viol(v, "parse_of_serialize_value", {"expected": node_to_native(pb["val"]), "got": back["val"]})
        else:
            F = set(v["faults"])
            if "Unsupported" in F:
                continue
            if not F:
                if "ok" not in r:
                    viol(v, "parse_rejects", r)
                    continue
                ok = r["ok"]
                if ok["cls"] != v["cls"]:
                    viol(v, "parse_class:%s_expected_%s" % (ok["cls"], v["cls"]), ok)
                elif not subset_equal(node_to_native(v["val"]), ok["val"]):
                    viol(v, "parse_value", {"expected": node_to_native(v["val"]), "got": ok["val"]})
                else:
                    dd = u.decl(ok["cls"])
                    if dd and not dd["parent"] and ok.get("size") != len(v["bytes"]):
                        viol(v, "size_property", {"size": ok.get("size"), "len": len(v["bytes"])})
            else:
                if "ok" in r:
                    viol(v, "parse_accepts:" + "+".join(sorted(F)), r["ok"])
                elif not r["err"].get("decode_error"):
                    viol(v, "parse_raises_non_decode_error", r)
        if rep.coverage["traces_validated_against_impl"] % 997 == 1:
            rep.sample({"desc": u.name, "type": v["type"], "op": v["k"], "label": v.get("label"),
                        "stimulus": hexs(v["bytes"]) if v["k"] != "enc" else node_to_native(v["val"])})
    rep.notes["descriptions"] = len(units)
    rep.notes["python_modules"] = len(mods)
    rep.assumptions += ["Python API binding (PyParse) in spec/PdlInherit.tla: root entry point, most derived parsing child",
                        "fields are compared on the names the specification's value carries (constrained fields excluded)"]
    return rep.finish()


# ------------------------------------------------------------------------------ C14 C++ backend
import cxxgen  # noqa: E402

CXXFLAGS_ASAN = ["-std=c++17", "-O1", "-g0", "-fsanitize=address,undefined", "-fno-sanitize-recover=all",
                 "-fno-omit-frame-pointer", "-w"]
CXXFLAGS_NDEBUG = ["-std=c++17", "-O2", "-g0", "-DNDEBUG", "-w"]


def build_cxx(units, info, flavour="asan"):
    """write gen.h + main.cc per unit and compile them in parallel; returns {unit name: (binary, usable)}"""
    import concurrent.futures
    root = os.path.join(WORK, "cxxgen", flavour)
    os.makedirs(root, exist_ok=True)
    rt = os.path.join(REPO, "pdl-compiler", "scripts")
    rth = hashlib.sha256(open(os.path.join(rt, "packet_runtime.h"), "rb").read()).hexdigest()
    flags = CXXFLAGS_ASAN if flavour == "asan" else CXXFLAGS_NDEBUG
    jobs = []
    out = {}
    for u in units:
        g = u.resp.get("cxx", {})
        inf = info.get(u.name)
        if u.status != "accepted" or "ok" not in g or not inf or not inf.get("cxx"):
            continue
        schemas = {t["id"]: t for t in inf["types"]}
        try:
            src, usable = cxxgen.generate(u, schemas, g["ok"])
        except Exception as e:  # noqa
            u.cxx = "harness_generation_failed: %r" % e
            continue
        d = os.path.join(root, u.mod)
        os.makedirs(d, exist_ok=True)
        ch = write_if_changed(os.path.join(d, "gen.h"), g["ok"])
        ch |= write_if_changed(os.path.join(d, "main.cc"), src)
        ch |= write_if_changed(os.path.join(d, "rt.hash"), rth + " ".join(flags))
        binp = os.path.join(d, "drv")
        jobs.append((u, d, binp, ch or not os.path.exists(binp), usable, schemas))

    def comp(j):
        u, d, binp, need, usable, schemas = j
        if need:
            p = subprocess.run(["g++"] + flags + ["-I", rt, "-I", d, os.path.join(d, "main.cc"), "-o", binp],
                               stdout=subprocess.PIPE, stderr=subprocess.STDOUT, text=True)
            if p.returncode != 0:
                if os.path.exists(binp):
                    os.unlink(binp)
                return (u, None, p.stdout[-3000:], usable, schemas)
        return (u, binp, "", usable, schemas)

    t = time.time()
    with concurrent.futures.ThreadPoolExecutor(NCPU) as ex:
        for (u, binp, msg, usable, schemas) in ex.map(comp, jobs):
            if binp:
                u.cxx = "ok"
                out[u.name] = (binp, usable, schemas)
            else:
                u.cxx = "compile_failed: " + msg
    log("c++ drivers (%s): %d built in %.1fs" % (flavour, len(out), time.time() - t))
    return out


def run_cxx(bins, reqs, tag="cxx"):
    import concurrent.futures
    by = {}
    for r in reqs:
        by.setdefault(r["bin"], []).append(r)
    res = {}
    env = {"ASAN_OPTIONS": "detect_leaks=0:abort_on_error=0:exitcode=99", "UBSAN_OPTIONS": "halt_on_error=1:print_stacktrace=0"}
    items = list(by.items())
    with concurrent.futures.ThreadPoolExecutor(NCPU) as ex:
        for r in ex.map(lambda a: run_lines(a[1][0], a[1][1], "%s%d" % (tag, a[0]), encode=lambda q: q["line"],
                                            use_stdin=True, env=env, timeout=300), enumerate(items)):
            res.update(r)
    return res


def check_c14(ctx):
    rep = Report("C14", ctx.tier, ctx.seed)
    units = make_units(kit.build(ctx.tier) + builder_descs(ctx.tier, ctx.seed, 'cxxclean', n=96 if ctx.tier == 'quick' else 400))
    compile_units(ctx.driver(), units, ["analyze", "cxx"])
    jobs = []
    for k, u in enumerate(units):
        jobs.append(dict(d=k + 1, type="", anc="", mode="info", n=0))
        if u.status != "accepted" or "ok" not in u.resp.get("cxx", {}):
            continue
        for t in u.types():
            jobs.append(dict(d=k + 1, type=t, anc="", mode="enc", n=0))
            jobs.append(dict(d=k + 1, type=t, anc="", mode="dec", n=0))
    vecs, info = run_jobs(ctx, units, jobs, rep)
    flavours = ["asan"] + (["ndebug"] if ctx.tier == "thorough" else [])
    for flavour in flavours:
        bins = build_cxx(units, info, flavour)
        usable = [v for v in vecs if v["unit"].name in bins and not (v["k"] == "enc" and v["faults"])]
        reqs = []
        for v in usable:
            binp, us, schemas = bins[v["unit"].name]
            t = v["type"]
            rid = len(reqs)
            if v["k"] == "dec":
                if not us.get(t, {}).get("parse"):
                    continue
                reqs.append(dict(rid=rid, bin=binp, v=v, line="%d P %s %s" % (rid, t, hexs(v["bytes"]) or "-")))
            else:
                params = us.get(t, {}).get("build")
                if params is None:
                    continue
                val = node_to_native(v["val"])
                try:
                    if params == "struct":
                        flat, field, one = cxxgen.flatten(val, schemas[t], schemas)
                        one("struct", t, val)
                    else:
                        flat = cxxgen.flatten_args(val, params, schemas[t], schemas)
                except KeyError as e:
                    rep.notes["unflattenable"] = rep.notes.get("unflattenable", 0) + 1
                    continue
                reqs.append(dict(rid=rid, bin=binp, v=v, line="%d B %s %s" % (rid, t, " ".join(map(str, flat)))))
        t_run = time.time()
        obs = run_cxx(bins, reqs, tag="cxx" + flavour)
        log("c++ run: %d requests in %.1fs" % (len(reqs), time.time() - t_run))
        for q in reqs:
            v = q["v"]
            u = v["unit"]
            o = obs.get(q["rid"], {})
            r = o.get("r", {})
            rep.validated()
            kind = None
            detail = r
            is_struct = (u.decl(v["type"]) or {}).get("kind") == "struct"
            if "abnormal" in o or _abn(r):
                err = (o.get("stderr") or r.get("stderr") or "")
                m = ""
                for ln in err.splitlines():
                    if "runtime error" in ln or "ERROR: AddressSanitizer" in ln or "Assertion" in ln or "terminate called" in ln \
                            or "what():" in ln:
                        m = ln.strip()
                        break
                import re
                m = re.sub(r"0x[0-9a-f]+", "0xN", m)
                m = re.sub(r"[0-9]+", "N", m)
                m = re.sub(r"^.*?(runtime error|ERROR: AddressSanitizer|Assertion|terminate called|what\(\))", r"\1", m)[:90]
                kind = "abnormal:" + (m or "exit")
                detail = {"stderr": err[-800:], "rc": o.get("rc")}
            elif v["k"] == "dec":
                F = set(v["faults"]) if is_struct else set(v["full"])
                if "Unsupported" in F | set(v["faults"]):
                    continue
                if not F:
                    if not r.get("valid"):
                        kind = "rejects_valid"
                    elif is_struct and r.get("rest") != v["rest"]:
                        kind = "struct_rest"
                    elif not subset_equal(node_to_native(v["val"]), r.get("val")):
                        kind = "getter_values"
                        detail = {"expected": node_to_native(v["val"]), "got": r.get("val")}
                else:
                    if r.get("valid"):
                        kind = "accepts:" + "+".join(sorted(F))
            else:
                if r.get("bytes") != hexs(v["bytes"]):
                    kind = "serialize_bytes"
                    detail = {"expected": hexs(v["bytes"]), "got": r.get("bytes")}
                elif r.get("size") != len(v["bytes"]):
                    kind = "get_size"
            if kind:
                fp = "C14|cxx-%s|%s|%s|%s|%s" % (flavour, u.name, v["type"], kind, ":".join(str(x) for x in (v.get("label") or [])))
                rp = {"backend": "cxx", "flavour": flavour, "desc": u.desc, "pdl": u.src, "type": v["type"], "op": v["k"],
                      "label": v.get("label"), "observed": detail,
                      "stimulus": {"bytes": hexs(v["bytes"])} if v["k"] == "dec" else {"value": node_to_native(v["val"])}}
                if v["k"] == "dec":
                    rp["expected"] = {"faults": v["faults"], "full": v["full"], "value": node_to_native(v["val"]) if not v["faults"] else None}
                rep.violation(fp, rp)
            elif rep.coverage["traces_validated_against_impl"] % 997 == 1:
                rep.sample({"desc": u.name, "type": v["type"], "op": v["k"], "label": v.get("label"),
                            "stimulus": hexs(v["bytes"]) if v["k"] == "dec" else node_to_native(v["val"])})
        rep.notes["drivers_" + flavour] = len(bins)
        failed = [u.name + ": " + u.cxx[:200] for u in units if getattr(u, "cxx", "") and u.cxx != "ok"]
        rep.notes["driver_build_failures_" + flavour] = failed[:10]
    rep.assumptions += ["CxxApi binding: a packet view is valid iff DecodeFull accepts the bytes as that type; a struct's static Parse consumes a prefix",
                        "getters are called only when IsValid() (API contract)"]
    return rep.finish()


# ------------------------------------------------------------------------------ C19 Java backend
def java_tokens(v, key=None):
    """native value -> prefix tokens understood by harness/java/Driver.java"""
    if v is None:
        return ["N"]
    if isinstance(v, int):
        return ["U", str(v)]
    if isinstance(v, list):
        if key == "payload":
            return ["Y", str(len(v))] + [str(x) for x in v]
        out = ["A", str(len(v))]
        for e in v:
            out += java_tokens(e)
        return out
    if isinstance(v, dict):
        out = ["S", str(len(v))]
        for k, x in v.items():
            out += [k] + java_tokens(x, k)
        return out
    raise ValueError(v)


def norm_keys(v):
    """field names as the Java driver reports them: lower case, no underscores"""
    if isinstance(v, dict):
        return {k.replace("_", "").lower(): norm_keys(x) for k, x in v.items()}
    if isinstance(v, list):
        return [norm_keys(x) for x in v]
    return v


def build_java(ctx, units, info):
    import concurrent.futures
    root = os.path.join(WORK, "javagen")
    src = os.path.join(root, "src")
    cls = os.path.join(root, "classes")
    os.makedirs(src, exist_ok=True)
    os.makedirs(cls, exist_ok=True)
    todo = [u for u in units if u.status == "accepted" and info.get(u.name, {}).get("java")]
    # generate sources through the real backend (it writes files)
    reqs = []
    for u in todo:
        d = os.path.join(src, u.mod)
        shutil.rmtree(d, ignore_errors=True)
        reqs.append(dict(rid=u.idx, name=u.desc["name"] + ".pdl", src=u.src, want=["java"], java_dir=d, java_pkg=u.mod))
    res = run_driver(ctx.driver(), reqs, tag="jgen")
    drv_src = os.path.join(VERIF, "harness", "java", "Driver.java")
    if not os.path.exists(os.path.join(cls, "Driver.class")) or \
            os.path.getmtime(os.path.join(cls, "Driver.class")) < os.path.getmtime(drv_src):
        sh(["javac", "-nowarn", "-d", cls, drv_src], timeout=300)

    t = time.time()
    ok = {}
    files_of = {}
    for u in todo:
        r = res.get(u.idx, {}).get("java", {})
        if "ok" not in r:
            u.java = "generate_failed: " + json.dumps(r)[:300]
            continue
        d = os.path.join(src, u.mod, u.mod)
        files_of[u.mod] = sorted(os.path.join(d, f) for f in os.listdir(d) if f.endswith(".java"))
        u.java = "ok"
    h = hashlib.sha256()
    for m in sorted(files_of):
        for f in files_of[m]:
            h.update(f.encode())
            h.update(open(f, "rb").read())
    stamp = os.path.join(root, "classes.stamp")
    bad = {}
    if os.path.exists(stamp) and open(stamp).read().split("\n")[0] == h.hexdigest():
        bad = json.loads(open(stamp).read().split("\n", 1)[1])
    else:
        for x in os.listdir(cls):
            if x.startswith("m") and x[1:].isdigit():
                shutil.rmtree(os.path.join(cls, x), ignore_errors=True)
        for attempt in range(8):
            allf = [f for m in sorted(files_of) if m not in bad for f in files_of[m]]
            argf = os.path.join(root, "files.txt")
            with open(argf, "w") as f:
                f.write("\n".join(allf))
            p = subprocess.run(["javac", "-J-XX:+UseSerialGC", "-nowarn", "-proc:none", "-Xmaxerrs", "100000", "-d", cls,
                                "@" + argf], stdout=subprocess.PIPE, stderr=subprocess.STDOUT, text=True)
            if p.returncode == 0:
                break
            newbad = {}
            for line in p.stdout.splitlines():
                if ".java:" in line and ": error:" in line:
                    m = line.split(os.sep + "src" + os.sep)[1].split(os.sep)[0]
                    newbad.setdefault(m, line.strip()[:300])
            if not newbad:
                raise ToolError("javac failed:\n" + p.stdout[-3000:])
            bad.update(newbad)
        else:
            raise ToolError("javac does not converge")
        with open(stamp, "w") as f:
            f.write(h.hexdigest() + "\n" + json.dumps(bad))
    for u in todo:
        if getattr(u, "java", "") == "ok":
            if u.mod in bad:
                u.java = "compile_failed: " + bad[u.mod]
            else:
                ok[u.name] = u.mod
    log("java: %d of %d units generated+compiled in %.1fs" % (len(ok), len(todo), time.time() - t))
    return ok, cls


def run_java(cls, reqs, tag="java"):
    import concurrent.futures
    reqs = list(reqs)
    n = max(1, min(NCPU, len(reqs) // 400 + 1))
    shards = [reqs[i::n] for i in range(n)]
    res = {}
    with concurrent.futures.ThreadPoolExecutor(n) as ex:
        for r in ex.map(lambda a: run_lines("java", a[1], "%s%d" % (tag, a[0]), encode=lambda q: q["line"], use_stdin=True,
                                            args=["-XX:+UseSerialGC", "-XX:TieredStopAtLevel=1", "-Xss4m", "-Xmx512m", "-cp", cls, "Driver", cls],
                                            timeout=900),
                        enumerate(shards)):
            res.update(r)
    return res


def check_c19(ctx):
    rep = Report("C19", ctx.tier, ctx.seed)
    units = make_units(kit.build(ctx.tier) + builder_descs(ctx.tier, ctx.seed, 'javaclean', n=256 if ctx.tier == 'quick' else 1200))
    compile_units(ctx.driver(), units, ["analyze"])
    jobs = []
    for k, u in enumerate(units):
        jobs.append(dict(d=k + 1, type="", anc="", mode="info", n=0))
    _, info = run_jobs(ctx, units, jobs, rep, tag="jinfo")
    mods, cls = build_java(ctx, units, info)
    jobs = []
    for k, u in enumerate(units):
        if u.name not in mods:
            continue
        for t in u.types():
            jobs.append(dict(d=k + 1, type=t, anc="", mode="enc", n=0))
            if not u.decl(t)["parent"]:
                jobs.append(dict(d=k + 1, type=t, anc="", mode="javaparse", n=0))
    vecs, _ = run_jobs(ctx, units, jobs, rep)
    usable = [v for v in vecs if not (v["k"] == "enc" and v["faults"])]
    reqs = []
    for v in usable:
        rid = len(reqs)
        m = mods[v["unit"].name]
        if v["k"] == "enc":
            toks = java_tokens(node_to_native(v["val"]))
            reqs.append(dict(rid=rid, v=v, line="%d B %s %s %s" % (rid, m, v["type"], " ".join(toks))))
        else:
            reqs.append(dict(rid=rid, v=v, line="%d P %s %s %s" % (rid, m, v["type"], hexs(v["bytes"]) or "-")))
    t_run = time.time()
    obs = run_java(cls, reqs)
    log("java run: %d requests in %.1fs" % (len(reqs), time.time() - t_run))

    def viol(v, kind, detail):
        msg = ""
        if isinstance(detail, dict) and isinstance(detail.get("err"), dict):
            import re
            msg = "|" + detail["err"].get("cls", "") + ":" + re.sub(r"[0-9]+", "N", detail["err"].get("msg", ""))[:50]
        fp = "C19|java|%s|%s|%s|%s%s" % (v["unit"].name, v["type"], kind, ":".join(str(x) for x in (v.get("label") or [])), msg)
        rp = {"backend": "java", "desc": v["unit"].desc, "pdl": v["unit"].src, "type": v["type"], "op": v["k"],
              "label": v.get("label"), "observed": detail}
        if v["k"] == "enc":
            rp["stimulus"] = {"value": node_to_native(v["val"])}
            rp["expected"] = {"bytes": hexs(v["bytes"])}
        else:
            rp["stimulus"] = {"bytes": hexs(v["bytes"])}
            rp["expected"] = {"faults": v["faults"], "outcomes": [
                {"cls": o["cls"], "reject": o["reject"], "value": node_to_native(o["val"])} for o in v["outcomes"]]}
        rep.violation(fp, rp)

    for q in reqs:
        v = q["v"]
        o = obs.get(q["rid"], {})
        r = o.get("r", {})
        rep.validated()
        if _abn(r) and r.get("abnormal") in ("OutOfMemoryError", "StackOverflowError") and v["k"] != "enc":
            # a Throwable ends the parse: C19 only demands "an exception rather than a wrong object"
            r = {"err": {"cls": r["abnormal"], "msg": ""}}
        if "abnormal" in o or _abn(r):
            viol(v, "abnormal:" + str((r if _abn(r) else o).get("abnormal"))[:40], o.get("stderr") or r)
            continue
        if "harness" in r:
            rep.notes["harness_errors"] = rep.notes.get("harness_errors", 0) + 1
            rep.notes.setdefault("harness_error_example", json.dumps(r)[:300])
            continue
        if v["k"] == "enc":
            if "unconstructible" in r:
                rep.notes["unconstructible"] = rep.notes.get("unconstructible", 0) + 1
                rep.notes.setdefault("unconstructible_example", json.dumps(r)[:300])
                continue
            if "ok" not in r:
                viol(v, "toBytes_throws", r)
                continue
            ok = r["ok"]
            if ok["bytes"] != hexs(v["bytes"]):
                viol(v, "toBytes_bytes", {"expected": hexs(v["bytes"]), "got": ok["bytes"]})
                continue
            back = ok.get("back", {})
            if "err" in back:
                if v.get("javareject"):
                    # the Java API binding (PdlInherit.JavaOutcomes) admits a rejection of these octets: a parent-level
                    # value whose fields select a child that its payload does not parse as
                    rep.notes["roundtrips_rejected_by_dispatch"] = rep.notes.get("roundtrips_rejected_by_dispatch", 0) + 1
                else:
                    viol(v, "fromBytes_of_toBytes_throws", back)
            elif not back.get("equals") and back.get("cls") == ok.get("cls"):
                # (a parent-level value whose payload happens to parse as a child comes back as that child:
                # dispatch is judged by the javaparse vectors, not here)
                viol(v, "fromBytes_of_toBytes_not_equal", back)
        else:
            outs = v["outcomes"]
            if any("Unsupported" in (v["faults"] or []) for _ in [0]):
                continue
            if "err" in r:
                if not any(x["reject"] for x in outs):
                    viol(v, "fromBytes_rejects", r)
            elif "ok" in r:
                ok = r["ok"]
                acc = [x for x in outs if not x["reject"]]
                if not acc:
                    viol(v, "fromBytes_accepts:" + "+".join(sorted(v["faults"])), ok)
                    continue
                got = ok["val"]
                cname = ok["cls"].lower()
                match = False
                for x in acc:
                    names = {x["cls"].replace("_", "").lower(), "unknown" + x["cls"].replace("_", "").lower()}
                    if cname in names and subset_equal(norm_keys(node_to_native(x["val"])), got):
                        match = True
                if not match:
                    viol(v, "fromBytes_wrong_object:%s" % ok["cls"],
                         {"got": ok, "admissible": [{"cls": x["cls"], "value": node_to_native(x["val"])} for x in acc]})
        if rep.coverage["traces_validated_against_impl"] % 997 == 1:
            rep.sample({"desc": v["unit"].name, "type": v["type"], "op": v["k"], "label": v.get("label"),
                        "stimulus": hexs(v["bytes"]) if v["k"] != "enc" else node_to_native(v["val"])})
    rep.notes["java_units"] = len(mods)
    rep.notes["java_build_failures"] = [u.name + ": " + u.java[:200] for u in units if getattr(u, "java", "ok") != "ok"][:10]
    rep.assumptions += ["Java API binding (spec/PdlInherit.tla JavaOutcomes): admissible results are a set (first match wins in the code)",
                        "rejection = any exception"]
    return rep.finish()


# ------------------------------------------------------------------------------ C07 all backends agree
def xser_requests(vs, pmods, cbins, jmods):
    """serialize requests for the four harnesses, one per value vector (C07, C17)"""
    rq = {"rust": [], "py": [], "cxx": [], "java": []}
    for i, v in enumerate(vs):
        u, t = v["unit"], v["type"]
        val = node_to_native(v["val"])
        rq["rust"].append(dict(rid=i, desc=u.name, type=t, op="encode", value=val, prefix=[]))
        if u.name in pmods:
            rq["py"].append(dict(rid=i, mod=pmods[u.name], type=t, op="serialize", value=val, root=v["root"]))
        if u.name in cbins:
            binp, us, schemas = cbins[u.name]
            params = us.get(t, {}).get("build")
            if params is not None:
                try:
                    if params == "struct":
                        flat, field, one = cxxgen.flatten(val, schemas[t], schemas)
                        one("struct", t, val)
                    else:
                        flat = cxxgen.flatten_args(val, params, schemas[t], schemas)
                    rq["cxx"].append(dict(rid=i, bin=binp, line="%d B %s %s" % (i, t, " ".join(map(str, flat)))))
                except KeyError:
                    pass
        if u.name in jmods:
            rq["java"].append(dict(rid=i, line="%d B %s %s %s" % (i, jmods[u.name], t, " ".join(java_tokens(val)))))
    return rq


def xser_bytes(b, o):
    """the octets a harness reports for a serialize request, or None"""
    r = (o or {}).get("r", {})
    if not isinstance(r, dict):
        return None
    if b == "rust":
        x = r.get("vec")
        return x.get("ok") if isinstance(x, dict) else None
    if b == "py":
        return (r.get("ok") or {}).get("bytes") if isinstance(r.get("ok"), dict) else None
    if b == "cxx":
        return list(bytes.fromhex(r["bytes"])) if "bytes" in r else None
    if b == "java":
        return list(bytes.fromhex(r["ok"]["bytes"])) if isinstance(r.get("ok"), dict) and "bytes" in r["ok"] else None


def check_c07(ctx):
    """PdlChannel: every backend writes every boundary value; every backend reads what every other wrote;
    all parsers are fed every TLC stimulus string.  Results are compared pairwise and with the value written."""
    rep = Report("C07", ctx.tier, ctx.seed)
    units = make_units(kit.build(ctx.tier))
    compile_units(ctx.driver(), units, ["analyze", "rust", "python", "cxx"])
    jobs = [dict(d=k + 1, type="", anc="", mode="info", n=0) for k, u in enumerate(units)]
    _, info = run_jobs(ctx, units, jobs, rep, tag="c07info")
    common = [u for u in units if u.status == "accepted" and all(info.get(u.name, {}).get(b) for b in ("rust", "py", "cxx", "java"))]
    log("C07: %d of %d units inside the intersection of the four supported classes" % (len(common), len(units)))
    cunits = common
    for i, u in enumerate(cunits):
        pass
    rbins = build_rust_harness(units)       # same shard layout as the other checks: no rebuild churn
    pmods = prepare_python(ctx, cunits)
    cbins = build_cxx(cunits, info, "asan")
    jmods, jcls = build_java(ctx, cunits, info)
    pos = {u.name: k + 1 for k, u in enumerate(units)}
    jobs = []
    for u in cunits:
        if not (u.name in rbins and u.name in pmods and u.name in cbins and u.name in jmods):
            continue
        for t in u.types():
            jobs.append(dict(d=pos[u.name], type=t, anc="", mode="enc", n=0))
            if not u.decl(t)["parent"]:
                jobs.append(dict(d=pos[u.name], type=t, anc="", mode="dec", n=0))
                if u.children(t):
                    # Java has no "parse as exactly this packet": Parent.fromBytes is decode + specialize.  Its
                    # acceptance is therefore judged through the API binding (PdlInherit.JavaOutcomes), see below.
                    jobs.append(dict(d=pos[u.name], type=t, anc="", mode="javaparse", n=0))
    vecs, _ = run_jobs(ctx, units, jobs, rep)
    java_may_reject = {(v["unit"].name, v["type"], tuple(v["bytes"])) for v in vecs
                       if v["k"] == "javaparse" and any(o["reject"] for o in v["outcomes"])}
    encs = [v for v in vecs if v["k"] == "enc" and not v["faults"]]
    decs = [v for v in vecs if v["k"] == "dec" and "Unsupported" not in v["faults"] + v["full"]]

    # ---- stage 1: every backend serializes every value
    rq = xser_requests(encs, pmods, cbins, jmods)
    ob = {"rust": run_rust(rbins, rq["rust"], tag="c07r"), "py": run_py(rq["py"], tag="c07p"),
          "cxx": run_cxx(cbins, rq["cxx"], tag="c07c"), "java": run_java(jcls, rq["java"], tag="c07j")}
    ser_bytes = xser_bytes

    BACK = ["rust", "py", "cxx", "java"]
    written = []      # (vector, backend, bytes)
    for i, v in enumerate(encs):
        outs = {b: ser_bytes(b, ob[b].get(i)) for b in BACK}
        rep.validated()
        got = {b: x for b, x in outs.items() if x is not None}
        for a in BACK:
            for b in BACK:
                if a < b and a in got and b in got and got[a] != got[b]:
                    rep.violation("C07|%s~%s|%s|%s|serialize_differs" % (a, b, v["unit"].name, v["type"]),
                                  {"desc": v["unit"].desc, "pdl": v["unit"].src, "type": v["type"],
                                   "stimulus": {"value": node_to_native(v["val"])},
                                   "expected": {"reference": hexs(v["bytes"])},
                                   "observed": {k: hexs(x) for k, x in got.items()}})
        for b in BACK:
            rr = (ob[b].get(i) or {}).get("r")
            if outs[b] is None:
                if isinstance(rr, dict) and "unconstructible" in rr:
                    continue
                if b == "cxx" and ob[b].get(i) is None:
                    continue        # no builder for this type in the C++ API (nothing was asked)
                rep.violation("C07|%s|%s|%s|serialize_fails" % (b, v["unit"].name, v["type"]),
                              {"desc": v["unit"].desc, "pdl": v["unit"].src, "type": v["type"],
                               "stimulus": {"value": node_to_native(v["val"])}, "observed": rr})
            elif outs[b] == v["bytes"] and v.get("rt"):
                # channel law: only for round-trippable values, and for what was written correctly
                # (a wrong encoding is the writer's violation, reported above as serialize_differs)
                written.append((v, b, outs[b]))
        if i % 499 == 1:
            rep.sample({"desc": v["unit"].name, "type": v["type"], "value": node_to_native(v["val"]),
                        "bytes_by_backend": {k: hexs(x) for k, x in got.items()}})

    # ---- stage 2: every backend parses (a) what the others wrote, (b) every stimulus string
    items = []      # (unit, type, bytes, origin, written value or None)
    seen = set()
    for (v, b, by) in written:
        key = (v["unit"].name, v["type"], tuple(by))
        if key in seen:
            continue
        seen.add(key)
        items.append((v["unit"], v["type"], by, "written_by_" + b, node_to_native(v["val"])))
    for v in decs:
        key = (v["unit"].name, v["type"], tuple(v["bytes"]))
        if key in seen:
            continue
        seen.add(key)
        items.append((v["unit"], v["type"], v["bytes"], ":".join(map(str, v["label"])), None))
    prq = {"rust": [], "py": [], "cxx": [], "java": []}
    for i, (u, t, by, org, val) in enumerate(items):
        root = u.chain(t)[0]["id"]
        prq["rust"].append(dict(rid=i, desc=u.name, type=t, op="decode", bytes=by))
        binp, us, schemas = cbins[u.name]
        if us.get(t, {}).get("parse"):
            prq["cxx"].append(dict(rid=i, bin=binp, line="%d P %s %s" % (i, t, hexs(by) or "-")))
        prq["py"].append(dict(rid=i, mod=pmods[u.name], type=root, op="parse", bytes=by))
        prq["java"].append(dict(rid=i, line="%d P %s %s %s" % (i, jmods[u.name], root, hexs(by) or "-")))
    po = {"rust": run_rust(rbins, prq["rust"], tag="c07r2"), "py": run_py(prq["py"], tag="c07p2"),
          "cxx": run_cxx(cbins, prq["cxx"], tag="c07c2"), "java": run_java(jcls, prq["java"], tag="c07j2")}

    def parsed(b, o, u, t):
        """-> (accepted?, value dict with normalised keys or None)"""
        r = (o or {}).get("r", {})
        if not isinstance(r, dict) or "abnormal" in (o or {}) or "abnormal" in r:
            if b == "java" and isinstance(r, dict) and r.get("abnormal") in ("OutOfMemoryError", "StackOverflowError"):
                return (False, None)
            return ("abnormal", None)
        if b == "rust":
            f = r.get("decode_full", {})
            return (True, norm_keys(f["ok"])) if "ok" in f else (False, None)
        if b == "cxx":
            if (u.decl(t) or {}).get("kind") == "struct":
                return (bool(r.get("valid")) and r.get("rest") == 0, norm_keys(r.get("val")))
            return (bool(r.get("valid")), norm_keys(r.get("val")))
        if b == "py":
            return (True, norm_keys(r["ok"]["val"])) if "ok" in r else (False, None)
        if b == "java":
            return (True, r["ok"]["val"]) if "ok" in r else (False, None)

    def common_equal(a, b):
        """values agree on every field both carry"""
        if isinstance(a, dict) and isinstance(b, dict):
            return all(common_equal(a[k], b[k]) for k in a if k in b and k != "payload")
        if isinstance(a, list) and isinstance(b, list):
            return len(a) == len(b) and all(common_equal(x, y) for x, y in zip(a, b))
        return a == b

    for i, (u, t, by, org, val) in enumerate(items):
        res = {b: parsed(b, po[b].get(i), u, t) for b in BACK if po[b].get(i) is not None}
        rep.validated()
        is_root = not u.decl(t)["parent"]
        for b, (acc, pv) in res.items():
            if acc == "abnormal":
                rep.violation("C07|%s|%s|%s|parse_abnormal|%s" % (b, u.name, t, org.split(":")[0]),
                              {"desc": u.desc, "pdl": u.src, "type": t, "stimulus": {"bytes": hexs(by)}, "origin": org,
                               "observed": po[b].get(i)})
            elif val is not None:
                # channel law: what A wrote is read back unchanged by B
                if not acc:
                    rep.violation("C07|%s|%s|%s|rejects_%s" % (b, u.name, t, org),
                                  {"desc": u.desc, "pdl": u.src, "type": t, "stimulus": {"bytes": hexs(by), "value": val},
                                   "origin": org, "observed": po[b].get(i, {}).get("r")})
                elif b in ("rust", "cxx") or is_root:
                    if not common_equal(norm_keys(val), pv):
                        rep.violation("C07|%s|%s|%s|reads_differently_%s" % (b, u.name, t, org),
                                      {"desc": u.desc, "pdl": u.src, "type": t,
                                       "stimulus": {"bytes": hexs(by), "value": val}, "origin": org, "observed": pv})
        # pairwise agreement on acceptance and on common field values (same type: rust~cxx; root: all)
        names = [b for b in BACK if b in res and res[b][0] != "abnormal" and (b in ("rust", "cxx") or is_root)]
        for x in names:
            for y in names:
                if x < y:
                    if res[x][0] != res[y][0]:
                        if "java" in (x, y) and not res["java"][0] and (u.name, t, tuple(by)) in java_may_reject:
                            # a child's constraints match and the child does not parse: Parent.fromBytes throws
                            # where Parent::decode_full(..) succeeds and .specialize() fails - same outcome
                            rep.notes["java_dispatch_rejections"] = rep.notes.get("java_dispatch_rejections", 0) + 1
                            continue
                        rep.violation("C07|%s~%s|%s|%s|acceptance_differs|%s" % (x, y, u.name, t, org.split(":")[0] if val is None else "written"),
                                      {"desc": u.desc, "pdl": u.src, "type": t, "stimulus": {"bytes": hexs(by)}, "origin": org,
                                       "observed": {x: res[x][0], y: res[y][0]}})
                    elif res[x][0] and not common_equal(res[x][1], res[y][1]):
                        rep.violation("C07|%s~%s|%s|%s|values_differ|%s" % (x, y, u.name, t, org.split(":")[0] if val is None else "written"),
                                      {"desc": u.desc, "pdl": u.src, "type": t, "stimulus": {"bytes": hexs(by)}, "origin": org,
                                       "observed": {x: res[x][1], y: res[y][1]}})
    rep.notes["units_in_common_class"] = len(common)
    rep.notes["values_written"] = len(encs)
    rep.notes["byte_strings_read"] = len(items)
    rep.assumptions += ["descriptions restricted to the intersection of the four Supported predicates (spec/PdlSupport.tla)",
                        "python and java are entered through the root type; their results are compared on the fields both sides carry"]
    return rep.finish()


# ------------------------------------------------------------------------------ C16 static size annotations
def check_c16(ctx):
    rep = Report("C16", ctx.tier, ctx.seed)
    # the kit, and shapes written by the builder machine (no target compilation needed: several hundred / thousand)
    bdescs = builder_descs(ctx.tier, ctx.seed, None, n=400 if ctx.tier == "quick" else 4000)
    nval = 48 if ctx.tier == "quick" else 400
    with_values = {d["name"] for d in bdescs[:nval]}
    units = make_units(kit.build(ctx.tier) + kit.schema_descs(ctx.tier) + bdescs, endians=("little",))
    compile_units(ctx.driver(), units, ["analyze", "schema"])
    acc = [u for u in units if u.status == "accepted"]
    for u in units:
        if u.status != "accepted" and u.desc["name"].startswith("g_"):
            rep.violation("C16|analyzer|%s|builder_description_not_accepted" % u.name,
                          {"desc": u.desc, "pdl": u.src, "observed": u.resp.get("analyze")})
    jobs = []
    pos = {u.name: k + 1 for k, u in enumerate(units)}
    for u in acc:
        jobs.append(dict(d=pos[u.name], type="", anc="", mode="schema", n=0))
        jobs.append(dict(d=pos[u.name], type="", anc="", mode="info", n=0))
        if u.desc["name"].startswith("g_") and u.desc["name"] not in with_values:
            continue
        for t in u.types():
            # the model-level soundness theorem is checked on every value vector of every type
            jobs.append(dict(d=pos[u.name], type=t, anc="", mode="enc", n=0))
    vecs, info = run_jobs(ctx, units, jobs, rep)
    nvals = sum(1 for v in vecs if v["k"] == "enc")
    for v in vecs:
        if v["k"] != "schema":
            continue
        u = v["unit"]
        got = u.resp.get("schema", {})
        if "ok" not in got:
            rep.violation("C16|analyzer|%s|schema_abnormal" % u.name,
                          {"desc": u.desc, "pdl": u.src, "observed": got})
            continue
        impl = {x["id"]: x for x in got["ok"]}
        for sd in v["schema"]:
            rep.validated()
            im = impl.get(sd["id"])
            if im is None:
                rep.violation("C16|analyzer|%s|%s|missing_decl" % (u.name, sd["id"]), {"desc": u.desc, "pdl": u.src})
                continue
            for key in ("decl_size", "parent_size", "payload_size", "total_size"):
                if im[key] != sd[key]:
                    rep.violation("C16|analyzer|%s|%s|%s:%s_expected_%s" % (u.name, sd["id"], key, im[key]["k"], sd[key]["k"]),
                                  {"desc": u.desc, "pdl": u.src, "decl": sd["id"], "query": key,
                                   "expected": sd[key], "observed": im[key]})
            imf = {f["i"]: f for f in im["fields"]}
            for sf in sd["fields"]:
                f = imf.get(sf["i"])
                if f is None:
                    rep.violation("C16|analyzer|%s|%s|missing_field_%d" % (u.name, sd["id"], sf["i"]), {"desc": u.desc, "pdl": u.src})
                    continue
                if f["field_size"] != sf["field_size"]:
                    rep.violation("C16|analyzer|%s|%s.%d|field_size:%s_expected_%s" % (u.name, sd["id"], sf["i"], f["field_size"]["k"], sf["field_size"]["k"]),
                                  {"desc": u.desc, "pdl": u.src, "decl": sd["id"], "field": sf["i"], "query": "field_size",
                                   "expected": sf["field_size"], "observed": f["field_size"]})
                if f["padded_size"] != sf["padded_size"]:
                    rep.violation("C16|analyzer|%s|%s.%d|padded_size" % (u.name, sd["id"], sf["i"]),
                                  {"desc": u.desc, "pdl": u.src, "decl": sd["id"], "field": sf["i"], "query": "padded_size",
                                   "expected": sf["padded_size"], "observed": f["padded_size"]})
                if "element_size" in f:
                    if f["element_size"] != sf["element_size"]:
                        rep.violation("C16|analyzer|%s|%s.%d|element_size" % (u.name, sd["id"], sf["i"]),
                                      {"desc": u.desc, "pdl": u.src, "decl": sd["id"], "field": sf["i"], "query": "element_size",
                                       "expected": sf["element_size"], "observed": f["element_size"]})
                    if f["array_size"] != sf["array_size"]:
                        rep.violation("C16|analyzer|%s|%s.%d|array_size" % (u.name, sd["id"], sf["i"]),
                                      {"desc": u.desc, "pdl": u.src, "decl": sd["id"], "field": sf["i"], "query": "array_size",
                                       "expected": sf["array_size"], "observed": f["array_size"]})
            if rep.coverage["traces_validated_against_impl"] % 97 == 1:
                rep.sample({"desc": u.name, "decl": sd["id"], "total_size": sd["total_size"],
                            "fields": [[x["i"], x["field_size"]] for x in sd["fields"]][:6]})
    rep.notes["descriptions"] = len(acc)
    rep.notes["value_vectors_checked_against_static_sizes_in_model"] = nvals
    rep.assumptions += ["size classes are defined from their meaning in spec/PdlSchema.tla; SizeSoundInv ties Static(n) to the reference encoder on every value vector",
                        "the driver reads Schema::{field,decl,parent,payload,total,padded}_size and element_size/array_size of the analyzed file"]
    return rep.finish()


# ------------------------------------------------------------------------------ C10 the compiler never crashes
KEYWORDS = ["packet", "struct", "enum", "group", "custom_field", "checksum", "test", "_payload_", "_body_", "_size_",
            "_count_", "_elementsize_", "_fixed_", "_reserved_", "_padding_", "_checksum_start_", "if", "..",
            "little_endian_packets", "big_endian_packets"]
BIGNUMS = ["0", "1", "63", "64", "65", "255", "256", "65535", "4294967295", "4294967296", "9223372036854775807",
           "9223372036854775808", "18446744073709551615", "18446744073709551616", "0xffffffffffffffff",
           "0x10000000000000000", "99999999999999999999999999", "0X1F", "00", "0x"]


def hex_variant(rng, src, p=0.5):
    """the same text with integer literals rewritten in hexadecimal (0x / 0X, either case), each with probability p"""
    import re

    def f(m):
        if rng.random() >= p:
            return m.group()
        n = int(m.group())
        return rng.choice(["0x%x", "0x%X", "0X%x", "0X%X"]) % n
    return re.sub(r"(?<![A-Za-z_0-9])[0-9]+(?![A-Za-z_0-9])", f, src)


def mutate_text(rng, src):
    import re
    k = rng.randrange(14)
    if k >= 12:
        return hex_variant(rng, src)
    if k == 0:
        i = rng.randrange(len(src) + 1)
        return src[:i]
    if k == 1:
        i = rng.randrange(len(src))
        j = min(len(src), i + rng.randrange(1, 12))
        return src[:i] + src[j:]
    if k == 2:
        i = rng.randrange(len(src))
        return src[:i] + rng.choice(["\x00", "\t", "\r", "\u00e9", "\u2028", "\U0001F600", "{", "}", "(", ")", ",", ":", "=", "\"", "/*", "*/", "//", "+", "[", "]"]) + src[i:]
    if k in (3, 4):
        nums = list(re.finditer(r"\b[0-9]+\b", src))
        if nums:
            m = rng.choice(nums)
            return src[:m.start()] + rng.choice(BIGNUMS) + src[m.end():]
    if k == 5:
        toks = list(re.finditer(r"[A-Za-z_][A-Za-z_0-9]*", src))
        if toks:
            m = rng.choice(toks)
            return src[:m.start()] + rng.choice(KEYWORDS) + src[m.end():]
    if k == 6:
        toks = list(re.finditer(r"[A-Za-z_][A-Za-z_0-9]*", src))
        if len(toks) > 1:
            a, b = rng.sample(toks, 2)
            if a.start() > b.start():
                a, b = b, a
            return src[:a.start()] + b.group() + src[a.end():b.start()] + a.group() + src[b.end():]
    if k == 7:
        lines = src.split("\n")
        i = rng.randrange(len(lines))
        return "\n".join(lines[:i] + [lines[i]] + lines[i:])       # duplicate a line (duplicate fields / decls)
    if k == 8:
        return src.replace(" ", "", rng.randrange(1, 4))             # glue tokens
    if k == 9:
        i = rng.randrange(len(src))
        return src[:i] + rng.choice(["/* unterminated", "\"unterminated", "// c\n", "/* c */"]) + src[i:]
    if k == 10:
        lines = src.split("\n")
        rng.shuffle(lines)
        return "\n".join(lines)
    return "".join(chr(rng.randrange(1, 0x250)) for _ in range(rng.randrange(0, 80)))


def py_compiles(src, name):
    try:
        compile(src, name, "exec")
        return None
    except Exception as e:  # noqa
        return repr(e)[:300]


def cxx_syntax_ok(units, info):
    """g++ -fsyntax-only on every generated header of the C++-supported class, in parallel"""
    import concurrent.futures
    rt = os.path.join(REPO, "pdl-compiler", "scripts")
    root = os.path.join(WORK, "cxxsyn")
    os.makedirs(root, exist_ok=True)
    todo = [u for u in units if u.status == "accepted" and info.get(u.name, {}).get("cxx") and "ok" in u.resp.get("cxx", {})]

    def one(u):
        p = os.path.join(root, u.mod + ".h")
        with open(p, "w") as f:
            f.write(u.resp["cxx"]["ok"])
        r = subprocess.run(["g++", "-std=c++17", "-fsyntax-only", "-w", "-I", rt, "-x", "c++", p], stdout=subprocess.PIPE,
                           stderr=subprocess.STDOUT, text=True)
        os.unlink(p)
        return (u, None if r.returncode == 0 else r.stdout[-800:])
    out = {}
    with concurrent.futures.ThreadPoolExecutor(NCPU) as ex:
        for (u, err) in ex.map(one, todo):
            out[u.name] = err
    return out


def norm_msg(m):
    import re
    m = re.sub(r"`[^`]*`", "`X`", m or "")
    if not m.startswith("Could not parse code"):        # (the rust generator's own parse error: the text says what)
        m = re.sub(r"\"[^\"]*\"", '"X"', m)
    m, _, at = m.partition(" @")          # the driver appends the panicking source file
    return re.sub(r"[0-9]+", "N", m)[:90] + ((" @" + at) if at else "")


def check_c10(ctx):
    rep = Report("C10", ctx.tier, ctx.seed)
    rng = random.Random(ctx.seed * 31337 + 5)
    # (builder descriptions: judged for a backend inside its *clean* class only, see spec/PdlDev.tla)
    descs = kit.build(ctx.tier) + kit.schema_descs(ctx.tier) + kit.c10_descs(ctx.tier) + builder_descs(ctx.tier, ctx.seed, "rust")
    units = make_units(descs)
    compile_units(ctx.driver(), units, ["parse", "analyze", "json", "rust", "python", "cxx"])
    jobs = [dict(d=k + 1, type="", anc="", mode="info", n=0) for k, u in enumerate(units) if u.status == "accepted"]
    _, info = run_jobs(ctx, units, jobs, rep, tag="c10info")
    for u in units:
        if u.desc["name"].startswith("g_") and u.name in info:
            inf = info[u.name]
            inf["py"], inf["cxx"], inf["java"] = inf.get("pyclean"), inf.get("cxxclean"), inf.get("javaclean")
    # target compilation of what was generated, inside each backend's supported class
    rs_units = [u for u in units if u.status == "accepted" and info.get(u.name, {}).get("rust")]
    saved = {u.name: u.status for u in units}
    for u in units:
        if u not in rs_units and u.status == "accepted":
            u.status = "accepted_outside_rust"
    build_rust_harness(units)
    for u in units:
        u.status = saved[u.name]
    cxxerr = cxx_syntax_ok(units, info)
    jmods, _ = build_java(ctx, units, info)
    runs = []
    where = {}

    def outcome_of(x):
        if not isinstance(x, dict):
            return "missing"
        if "ok" in x:
            return "ok"
        if "panic" in x:
            return "panic"
        if "timeout" in x:
            return "timeout"
        return "error"

    for u in units:
        r = u.resp
        ev = []
        detail = {}
        if "timeout" in r or "abnormal" in r:
            ev.append(dict(ev="parse", b="", outcome="abort" if "abnormal" in r else "timeout"))
            detail["parse"] = r
        else:
            p = r.get("parse", {})
            po = "ok" if "ok" in p else "diag" if "diag" in p else outcome_of(p)
            if po == "diag" and p.get("emit") != "ok":
                po = "diag_render_failed"
            ev.append(dict(ev="parse", b="", outcome=po))
            detail["parse"] = p if po != "ok" else "ok"
            if po == "ok":
                if "json" in r:
                    ev.append(dict(ev="generate", b="json", outcome=outcome_of(r["json"])))
                a = r.get("analyze", {})
                ao = "ok" if "ok" in a else "diag" if "diags" in a else outcome_of(a)
                if ao == "diag" and a.get("emit") != "ok":
                    ao = "diag_render_failed"
                ev.append(dict(ev="analyze", b="", outcome=ao))
                detail["analyze"] = a if ao not in ("ok",) else "ok"
                if ao == "ok":
                    inf = info.get(u.name, {})
                    for b, flag in (("rust", "rust"), ("python", "py"), ("cxx", "cxx")):
                        if not inf.get(flag):
                            continue
                        g = r.get(b, {})
                        go = outcome_of(g)
                        ev.append(dict(ev="generate", b=b, outcome=go))
                        if go != "ok":
                            detail["generate_" + b] = g
                            continue
                        if b == "rust":
                            co = "ok" if u.rust == "ok" else "error"
                            if co != "ok":
                                detail["compile_rust"] = u.rust
                        elif b == "python":
                            e = py_compiles(g["ok"], u.mod + ".py")
                            co = "ok" if e is None else "error"
                            if e:
                                detail["compile_python"] = e
                        else:
                            e = cxxerr.get(u.name)
                            co = "ok" if e is None else "error"
                            if e:
                                detail["compile_cxx"] = e
                        ev.append(dict(ev="compile", b=b, outcome=co))
                    if inf.get("java"):
                        js = getattr(u, "java", "missing")
                        if js.startswith("generate_failed"):
                            ev.append(dict(ev="generate", b="java", outcome="panic" if "panic" in js else "error"))
                            detail["generate_java"] = js
                        else:
                            ev.append(dict(ev="generate", b="java", outcome="ok"))
                            ev.append(dict(ev="compile", b="java", outcome="ok" if js == "ok" else "error"))
                            if js != "ok":
                                detail["compile_java"] = js
        rid = len(runs)
        runs.append(dict(rid=rid, events=ev))
        where[rid] = ("desc", u, detail)
    # mutated and random texts: parse / analyze / json must answer with a value or a diagnostic
    nmut = 4000 if ctx.tier == "quick" else 60000
    texts, tsrc = [], []
    for i in range(nmut):
        su = rng.choice(units)
        t = su.src
        for _ in range(rng.choice([1, 1, 1, 2, 3])):
            t = mutate_text(rng, t) or t
        texts.append(t)
        tsrc.append(su)
    # every description once more with all its integer literals in hexadecimal
    texts += [hex_variant(rng, u.src, 1.0) for u in units]
    tsrc += list(units)
    # ... and once more with its declarations in reverse order (forward references everywhere)
    for u in units:
        if u.desc["endian"] == "little" and len(u.desc["decls"]) > 1:
            rd = json.loads(json.dumps(u.desc))
            rd["decls"] = rd["decls"][::-1]
            texts.append(pdl.render(rd))
            tsrc.append(u)
    reqs = [dict(rid=i, name="mut%d.pdl" % i, src=t, want=["parse", "analyze", "json"]) for i, t in enumerate(texts)]
    mres = run_driver(ctx.driver(), reqs, tag="mut")
    # texts the analyzer accepts are handed to every backend whose supported class they fall into (the class is
    # decided by the specification on the description recovered from the analyzed AST)
    munits, mof = [], {}
    for i, t in enumerate(texts):
        a = mres.get(i, {}).get("analyze", {}) if isinstance(mres.get(i), dict) else {}
        if "ok" not in a:
            continue
        try:
            d = pdl.ast_to_desc(a["ok"])
        except Exception:  # noqa
            rep.notes["accepted_texts_unmappable"] = rep.notes.get("accepted_texts_unmappable", 0) + 1
            continue
        nums = [x.get("width", 0) for x in d["decls"]] + [f.get(k, 0) for x in d["decls"] for f in x["fields"] for k in ("width", "count", "mod", "size", "condv")]
        if any(isinstance(n, int) and abs(n) > 4096 for n in nums) or len(json.dumps(d)) > 60000:
            rep.notes["accepted_texts_outside_model_range"] = rep.notes.get("accepted_texts_outside_model_range", 0) + 1
            continue
        d["name"] = "mut%d" % i
        d["endian"] = d.get("endian") or "little"
        mu = Unit(len(munits), d)
        mu.src = t
        mof[i] = mu
        munits.append(mu)
    minfo = {}
    if munits:
        mjobs = [dict(d=k + 1, type="", anc="", mode="info", n=0) for k in range(len(munits))]
        _, minfo = run_jobs(ctx, munits, mjobs, rep, tag="c10minfo")
    greqs = []
    for i, mu in mof.items():
        inf = minfo.get(mu.name, {})
        # (texts derived from a builder description: the clean classes of spec/PdlDev.tla, as for the description itself)
        clean = tsrc[i].desc["name"].startswith("g_")
        want = [b for b, flag in (("rust", "rust"), ("python", "pyclean" if clean else "py"), ("cxx", "cxxclean" if clean else "cxx"),
                                 ("java", "javaclean" if clean else "java")) if inf.get(flag)]
        mu.want = want
        if want:
            greqs.append(dict(rid=i, name="mut%d.pdl" % i, src=texts[i], want=["parse", "analyze"] + want))
    gres = run_driver(ctx.driver(), greqs, tag="mutgen") if greqs else {}
    nacc = 0
    ngen = 0
    for i, t in enumerate(texts):
        r = mres.get(i, {})
        ev = []
        if "timeout" in r or "abnormal" in r or not r:
            ev.append(dict(ev="parse", b="", outcome="timeout" if "timeout" in r else "abort"))
        else:
            p = r.get("parse", {})
            po = "ok" if "ok" in p else "diag" if "diag" in p else outcome_of(p)
            if po == "diag" and p.get("emit") != "ok":
                po = "diag_render_failed"
            ev.append(dict(ev="parse", b="", outcome=po))
            if po == "ok":
                ev.append(dict(ev="generate", b="json", outcome=outcome_of(r.get("json"))))
                a = r.get("analyze", {})
                ao = "ok" if "ok" in a else "diag" if "diags" in a else outcome_of(a)
                if ao == "diag" and a.get("emit") != "ok":
                    ao = "diag_render_failed"
                if ao == "ok":
                    nacc += 1
                ev.append(dict(ev="analyze", b="", outcome=ao))
                if ao == "ok" and i in mof and mof[i].want:
                    g = gres.get(i, {})
                    r = dict(r)
                    for b in mof[i].want:
                        go = outcome_of(g.get(b)) if isinstance(g, dict) and "timeout" not in g and "abnormal" not in g else "abort"
                        ev.append(dict(ev="generate", b=b, outcome=go))
                        ngen += 1
                        if go != "ok":
                            r["generate_" + b] = g.get(b) if isinstance(g, dict) else g
                            continue
                        if b == "python":
                            e = py_compiles(g[b]["ok"], "mut%d.py" % i)
                            ev.append(dict(ev="compile", b=b, outcome="ok" if e is None else "error"))
                            if e:
                                r["compile_python"] = e
        rid = len(runs)
        runs.append(dict(rid=rid, events=ev))
        where[rid] = ("text", t, r)
    tr = os.path.join(ctx.tmp, "runs.ndjson")
    write_ndjson(tr, runs)
    lines, stats = tlc("Trace_Compile", "Trace_Compile.cfg", dict(TRACE=tr), tag="ctrace")
    rep.tlc_stats(stats)
    accepted = {x["rid"] for x in parse_tagged(lines, "ACCEPT")}
    for run in runs:
        rep.validated()
        if run["rid"] in accepted:
            if run["rid"] % 997 == 1:
                kind, what, _ = where[run["rid"]]
                rep.sample({"source": what.name if kind == "desc" else what[:120], "events": run["events"]})
            continue
        kind, what, detail = where[run["rid"]]
        bad = next((e for e in run["events"] if e["outcome"] not in ("ok", "diag")), run["events"][-1] if run["events"] else {})
        stage = "%s%s" % (bad.get("ev"), (":" + bad["b"]) if bad.get("b") else "")
        msg = ""
        if kind == "desc":
            dd = detail.get(("generate_" if bad.get("ev") == "generate" else "compile_") + bad.get("b", "")) or detail.get(bad.get("ev"))
            msg = dd.get("panic", "") if isinstance(dd, dict) else str(dd)
            fp = "C10|%s|%s|%s|%s" % (stage, what.name, bad.get("outcome"), norm_msg(msg))
            rep.violation(fp, {"desc": what.desc, "pdl": what.src, "events": run["events"], "observed": detail})
        else:
            dd = detail.get(bad.get("ev")) if isinstance(detail, dict) else None
            if bad.get("ev") == "generate":
                dd = detail.get("json") if bad.get("b") == "json" else detail.get("generate_" + bad.get("b", ""))
            if bad.get("ev") == "compile":
                dd = detail.get("compile_" + bad.get("b", ""))
            msg = dd.get("panic", "") if isinstance(dd, dict) else (dd if isinstance(dd, str) else "")
            fp = "C10|%s|text|%s|%s" % (stage, bad.get("outcome"), norm_msg(msg))
            rep.violation(fp, {"pdl": what, "events": run["events"], "observed": detail})
    rep.notes["descriptions"] = len(units)
    rep.notes["mutated_texts"] = nmut
    rep.notes["mutated_texts_accepted_by_analyzer"] = nacc
    rep.notes["mutated_texts_backend_generations"] = ngen
    rep.assumptions += ["'compiles' is demanded only inside the backend's Supported predicate (spec/PdlSupport.tla)",
                        "panics, aborts and timeouts are observed by the driver (catch_unwind, watchdog, fresh process per batch); "
                        "the specification's role is to classify the recorded run (PdlCompile has no action for them)"]
    return rep.finish()


# ------------------------------------------------------------------------------ C11 determinism, front ends, exclusion
def build_pdlc():
    t = time.time()
    sh(["cargo", "build", "--offline", "-q", "--manifest-path", os.path.join(REPO, "Cargo.toml"), "-p", "pdl-compiler",
        "--bin", "pdlc", "--target-dir", os.path.join(WORK, "target-pdlc")], timeout=1800)
    log("pdlc built in %.1fs" % (time.time() - t))
    return os.path.join(WORK, "target-pdlc", "debug", "pdlc")


def sha(s):
    return hashlib.sha256(s.encode() if isinstance(s, str) else s).hexdigest()[:20]


def build_derive_harness(units):
    """the same registry as build_rust_harness, but every module is produced by #[pdl_inline]"""
    root = os.path.join(WORK, "rustderive")
    os.makedirs(os.path.join(root, ".cargo"), exist_ok=True)
    write_if_changed(os.path.join(root, ".cargo", "config.toml"),
                     "[net]\noffline = true\n[build]\ntarget-dir = \"%s\"\n" % os.path.join(WORK, "target-rustderive"))
    if not os.path.exists(os.path.join(root, "Cargo.lock")):
        shutil.copy(os.path.join(REPO, "Cargo.lock"), os.path.join(root, "Cargo.lock"))
    n = max(1, min(8, len(units) // 10 + 1))
    shards = ["d%02d" % i for i in range(n)]
    write_if_changed(os.path.join(root, "Cargo.toml"),
                     "[workspace]\nresolver = \"2\"\nmembers = [%s]\n\n[profile.dev]\nopt-level = 0\ndebug = 0\n"
                     "overflow-checks = true\ndebug-assertions = true\nincremental = false\n" % ", ".join('"%s"' % x for x in shards))
    for x in os.listdir(root):
        if x.startswith("d") and x[1:].isdigit() and x not in shards:
            shutil.rmtree(os.path.join(root, x), ignore_errors=True)
    assign = {x: [] for x in shards}
    for i, u in enumerate(units):
        assign[shards[i % n]].append(u)
    for x in shards:
        sd = os.path.join(root, x)
        os.makedirs(os.path.join(sd, "src"), exist_ok=True)
        write_if_changed(os.path.join(sd, "Cargo.toml"),
                         CARGO_SHARD % (x, os.path.join(VERIF, "harness", "rust_gen", "hcommon"))
                         + 'pdl-derive = { path = "/repo/pdl-derive" }\n')
        mods, regs = [], []
        for u in assign[x]:
            lit = json.dumps(u.src)      # a Rust string literal: JSON escapes are valid Rust escapes for this alphabet
            mods.append("#[pdl_derive::pdl_inline(%s)]\nmod %s {}" % (lit, u.mod))
            regs += registry_lines(u)
        main = ("#![allow(warnings)]\n#[global_allocator]\nstatic A: hcommon::CapAlloc = hcommon::CapAlloc;\n"
                + "\n".join(mods) + "\nfn main() {\n    let mut r = hcommon::Registry::new();\n"
                + "\n".join(regs) + "\n    hcommon::serve(r);\n}\n")
        write_if_changed(os.path.join(sd, "src", "main.rs"), main)
    t = time.time()
    p = sh(["cargo", "build", "--offline", "--message-format=short"], cwd=root, timeout=3600, check=False,
           env={"RUSTFLAGS": "-Awarnings"})
    log("derive harness build: rc=%d in %.1fs" % (p.returncode, time.time() - t))
    if p.returncode != 0:
        raise ToolError("derive harness build failed:\n" + p.stdout[-4000:])
    tdir = os.path.join(WORK, "target-rustderive", "debug")
    return {u.name: os.path.join(tdir, x) for x in shards for u in assign[x]}


def check_c11(ctx):
    rep = Report("C11", ctx.tier, ctx.seed)
    rng = random.Random(ctx.seed + 4711)
    quick = ctx.tier == "quick"
    units = make_units(kit.build(ctx.tier) + builder_descs(ctx.tier, ctx.seed, "rust"))
    K = 3 if quick else 12
    # the edge descriptions take part in the digest and exclusion parts (no harness is built for them)
    nharness = len(units)
    for d in kit.c10_descs(ctx.tier):
        dd = json.loads(json.dumps(d))
        units.append(Unit(len(units), dd))
    reqs = [dict(rid=u.idx, name=u.desc["name"] + ".pdl", src=u.src, want=["analyze", "json", "rust", "python", "cxx"], repeat=K)
            for u in units]
    res = run_driver(ctx.driver(), reqs, tag="c11a")
    for u in units:
        u.resp = res.get(u.idx, {})
        u.status = "accepted" if "ok" in u.resp.get("analyze", {}) else "rejected"
    digests = {}        # key -> list of digests

    def obs(key, text):
        digests.setdefault(key, []).append(sha(text))

    for u in units:
        for b in ("json", "rust", "python", "cxx"):
            g = u.resp.get(b, {})
            if "ok" in g:
                key = "inproc|%s|%s|%s.pdl" % (b, u.name, u.desc["name"])
                obs(key, g["ok"])
                if g.get("repeat_same") is False:
                    obs(key, g["ok"] + "#differs-within-repeat")
    # a second driver process (fresh hash seeds), and pdlc itself as separate processes
    res2 = run_driver(ctx.driver(), reqs, tag="c11b")
    for u in units:
        for b in ("json", "rust", "python", "cxx"):
            g = res2.get(u.idx, {}).get(b, {})
            if "ok" in g:
                obs("inproc|%s|%s|%s.pdl" % (b, u.name, u.desc["name"]), g["ok"])
    pdlc = build_pdlc()
    sample = [u for u in units if u.status == "accepted"]
    rng.shuffle(sample)
    sample = sample[:40 if quick else 400]
    N = 3 if quick else 8
    import concurrent.futures

    def run_cli(args):
        u, b, n = args
        d = os.path.join(ctx.tmp, "cli", "%s_%d" % (u.mod, n))
        os.makedirs(d, exist_ok=True)
        fn = u.desc["name"] + ".pdl"
        with open(os.path.join(d, fn), "w") as f:
            f.write(u.src)
        env = dict(os.environ, HOME=d, TMPDIR=d, LANG="C" if n % 2 else "en_US.UTF-8", PDL_RANDOM=str(n))
        p = subprocess.run([pdlc, "--output-format", b, fn], cwd=d, stdout=subprocess.PIPE, stderr=subprocess.PIPE, env=env)
        return (u, b, p.returncode, p.stdout)

    work = [(u, b, n) for u in sample for b in ("json", "rust", "python", "cxx") for n in range(N)]
    cli_text = {}
    with concurrent.futures.ThreadPoolExecutor(NCPU) as ex:
        for (u, b, rc, out) in ex.map(run_cli, work):
            if rc == 0:
                obs("cli|%s|%s|%s.pdl" % (b, u.name, u.desc["name"]), out)
                cli_text[(u.name, b)] = out.decode("utf-8", "replace")
    # CLI output == library output (same source, same file name, same options)
    for (un, b), text in cli_text.items():
        u = next(x for x in units if x.name == un)
        lib = u.resp.get(b, {}).get("ok")
        rep.validated()
        if lib is not None and text.rstrip("\n") != lib.rstrip("\n"):
            rep.violation("C11|cli_vs_library|%s|%s" % (b, un), {"desc": u.desc, "pdl": u.src, "backend": b,
                                                                "observed": {"cli_sha": sha(text), "library_sha": sha(lib)}})
    rows = [dict(key=k, digests=v) for k, v in sorted(digests.items())]
    tr = os.path.join(ctx.tmp, "memo.ndjson")
    write_ndjson(tr, rows)
    lines, stats = tlc("Trace_Memo", "Trace_Memo.cfg", dict(TRACE=tr), tag="memo")
    rep.tlc_stats(stats)
    okk = {x["key"] for x in parse_tagged(lines, "ACCEPT")}
    for row in rows:
        rep.validated(len(row["digests"]))
        if row["key"] not in okk:
            kind, b, un, fn = row["key"].split("|")
            u = next(x for x in units if x.name == un)
            rep.violation("C11|nondeterministic|%s|%s|%s" % (kind, b, un),
                          {"desc": u.desc, "pdl": u.src, "backend": b, "observed": {"digests": row["digests"]}})
    rep.sample({"key": rows[0]["key"], "digests": rows[0]["digests"]})
    # exclusion: excluding a leaf declaration changes nothing for the others
    nex = 0
    exreqs, exmeta = [], []
    for u in units:
        if u.status != "accepted" or u.desc["endian"] != "little":
            continue
        decls = u.desc["decls"]
        ids = [x["id"] for x in decls]
        for x in decls:
            rid = x["id"]
            referenced = any(y["parent"] == rid or any(f["type"] == rid for f in y["fields"]) for y in decls if y is not x)
            if referenced or x["kind"] == "group" or len(decls) < 2:
                continue
            rest = json.loads(json.dumps(u.desc))
            rest["decls"] = [y for y in rest["decls"] if y["id"] != rid]
            a = dict(rid=len(exreqs), name=u.desc["name"] + ".pdl", src=u.src, want=["analyze", "rust", "python", "cxx"], exclude=[rid])
            exreqs.append(a)
            exmeta.append((u, rid, "excluded"))
            b = dict(rid=len(exreqs), name=u.desc["name"] + ".pdl", src=pdl.render(rest), want=["analyze", "rust", "python", "cxx"])
            exreqs.append(b)
            exmeta.append((u, rid, "removed"))
    exres = run_driver(ctx.driver(), exreqs, tag="c11x")
    for i in range(0, len(exreqs), 2):
        u, rid, _ = exmeta[i]
        ra, rb = exres.get(i, {}), exres.get(i + 1, {})
        for b in ("rust", "python", "cxx"):
            ga, gb = ra.get(b, {}), rb.get(b, {})
            if "ok" in ga and "ok" in gb:
                rep.validated()
                nex += 1
                if ga["ok"] != gb["ok"]:
                    rep.violation("C11|exclude_changes_others|%s|%s|%s" % (b, u.name, rid),
                                  {"desc": u.desc, "pdl": u.src, "backend": b, "excluded": rid,
                                   "observed": {"with_exclude_sha": sha(ga["ok"]), "source_without_decl_sha": sha(gb["ok"])}})
            elif ("ok" in ga) != ("ok" in gb) and "ok" in ra.get("analyze", {}) and "ok" in rb.get("analyze", {}):
                rep.violation("C11|exclude_changes_outcome|%s|%s|%s" % (b, u.name, rid),
                              {"desc": u.desc, "pdl": u.src, "backend": b, "excluded": rid,
                               "observed": {"with_exclude": json.dumps(ga)[:300], "source_without_decl": json.dumps(gb)[:300]}})
    # ... and the command-line tool's own --exclude-declaration (main.rs filters the parsed file itself) must produce
    # what the library call with the same exclusion produces
    cli_ex = [i for i in range(0, len(exreqs), 2) if "ok" in exres.get(i, {}).get("analyze", {})]
    rng.shuffle(cli_ex)
    cli_ex = cli_ex[:24 if quick else 300]

    def run_cli_ex(i):
        u, rid, _ = exmeta[i]
        d = os.path.join(ctx.tmp, "cliex", "%s_%d" % (u.mod, i))
        os.makedirs(d, exist_ok=True)
        fn = u.desc["name"] + ".pdl"
        with open(os.path.join(d, fn), "w") as f:
            f.write(u.src)
        out = {}
        for b in ("rust", "python", "cxx"):
            p = subprocess.run([pdlc, "--output-format", b, "--exclude-declaration", rid, fn], cwd=d,
                               stdout=subprocess.PIPE, stderr=subprocess.PIPE)
            out[b] = p.stdout.decode("utf-8", "replace") if p.returncode == 0 else None
        return (i, out)

    ncli = 0
    with concurrent.futures.ThreadPoolExecutor(NCPU) as ex:
        for (i, out) in ex.map(run_cli_ex, cli_ex):
            u, rid, _ = exmeta[i]
            for b in ("rust", "python", "cxx"):
                lib = exres.get(i, {}).get(b, {}).get("ok")
                if lib is None or out[b] is None:
                    continue
                rep.validated()
                ncli += 1
                if out[b].rstrip("\n") != lib.rstrip("\n"):
                    rep.violation("C11|cli_exclude_vs_library|%s|%s|%s" % (b, u.name, rid),
                                  {"desc": u.desc, "pdl": u.src, "backend": b, "excluded": rid,
                                   "observed": {"cli_sha": sha(out[b]), "library_sha": sha(lib)}})
    rep.notes["cli_exclusion_comparisons"] = ncli
    rep.notes["exclusion_comparisons"] = nex
    # front ends: #[pdl_inline] modules must behave event-for-event like the CLI-generated modules
    units = units[:nharness]
    fe = [u for u in units if u.status == "accepted" and "ok" in u.resp.get("rust", {})]
    jobs = [dict(d=k + 1, type="", anc="", mode="info", n=0) for k, u in enumerate(units)]
    _, info = run_jobs(ctx, units, jobs, rep, tag="c11info")
    fe = [u for u in fe if info.get(u.name, {}).get("rust")]
    rng.shuffle(fe)
    fe = fe[:40 if quick else 200]
    for u in units:
        u.status = "accepted" if u in fe else "skip"
    bins_cli = build_rust_harness(units)
    bins_der = build_derive_harness(fe)
    pos = {u.name: k + 1 for k, u in enumerate(units)}
    jobs = []
    for u in fe:
        for t in u.types():
            for m in ("enc", "dec", "bad"):
                jobs.append(dict(d=pos[u.name], type=t, anc="", mode=m, n=0))
    vecs, _ = run_jobs(ctx, units, jobs, rep, tag="c11vec")
    rq = rust_requests(vecs)
    oa = run_rust(bins_cli, rq, tag="fea")
    ob = run_rust(bins_der, rq, tag="feb")
    for v in vecs:
        a, b = oa.get(v["rid"], {}).get("r"), ob.get(v["rid"], {}).get("r")
        rep.validated()
        if a != b:
            rep.violation("C11|derive_vs_cli|%s|%s|%s" % (v["unit"].name, v["type"], v["k"]),
                          dict(vec_replay(v, {"cli": a, "derive": b})))
    rep.notes["front_end_units"] = len(fe)
    rep.notes["front_end_vectors"] = len(vecs)
    rep.notes["keys"] = len(rows)
    rep.notes["cli_processes"] = len(work)
    rep.assumptions += ["digests are over stdout bytes / returned strings; the file name is part of the key",
                        "the derive macro is compared behaviourally (same vectors, identical observations), not textually"]
    return rep.finish()


# ------------------------------------------------------------------------------ C12 parser fidelity and source ranges
def ast_node(ast, path):
    """follow a printer path (spec/PdlSyntax.tla) into the serde JSON of ast::File"""
    if path == ["endianness"]:
        return ast["endianness"]
    node = ast["declarations"][path[1] - 1]
    i = 2
    while i < len(path):
        k = path[i]
        if k == "field":
            node = node["fields"][path[i + 1] - 1]; i += 2
        elif k == "tag":
            node = node["tags"][path[i + 1] - 1]; i += 2
        elif k == "sub":
            node = node["tags"][path[i + 1] - 1]; i += 2
        elif k == "cons":
            node = node["constraints"][path[i + 1] - 1]; i += 2
        elif k == "cond":
            node = node["cond"]; i += 1
        else:
            raise KeyError(k)
    return node


def linecol(text_bytes, off):
    """line/column of a byte offset, by counting line feeds (pure data)"""
    before = text_bytes[:off]
    line = before.count(b"\n")
    col = off - (before.rfind(b"\n") + 1)
    return line, col


def check_c12(ctx):
    rep = Report("C12", ctx.tier, ctx.seed)
    quick = ctx.tier == "quick"
    descs = kit.build(ctx.tier) + kit.schema_descs(ctx.tier) + kit.syntax_descs(ctx.tier) + \
        [d for d in kit.c10_descs(ctx.tier) if d["name"] not in ("x_count_of_payload",)]
    dp = os.path.join(ctx.tmp, "sdescs.ndjson")
    write_ndjson(dp, descs)
    ntr = 250 if quick else 6000

    def render_run(tag, allow0x, nearmiss, n):
        lines, stats = tlc("MC_Syntax", "MC_Syntax.cfg", dict(DESCS=dp, ALLOW0X=allow0x, NEARMISS=nearmiss), workers=1,
                           simulate="num=%d" % n, extra=["-depth", "4000", "-seed", str(ctx.seed)], tag=tag, timeout=3000)
        rep.tlc_stats(stats)
        seen, out = set(), []
        for x in parse_tagged(lines, "SRC"):
            key = (x["job"], x["text"])
            if key not in seen:
                seen.add(key)
                out.append(x)
        return out

    import concurrent.futures
    with concurrent.futures.ThreadPoolExecutor(3) as ex:
        fa = ex.submit(render_run, "syn_a", "0", "0", ntr)
        fb = ex.submit(render_run, "syn_b", "1", "0", max(20, ntr // 10))
        fc = ex.submit(render_run, "syn_c", "0", "1", ntr)
        srcs, srcs0x, srcsnm = fa.result(), fb.result(), fc.result()
    srcs0x = [x for x in srcs0x if "0X" in x["text"]]
    srcsnm = [x for x in srcsnm if x["miss"]]
    allsrc = [("valid", x) for x in srcs] + [("0X", x) for x in srcs0x] + [("nearmiss", x) for x in srcsnm]
    reqs = [dict(rid=i, name="s%d.pdl" % i, src=x["text"], want=["parse"]) for i, (_, x) in enumerate(allsrc)]
    res = run_driver(ctx.driver(), reqs, tag="c12")
    # second pass: print the parsed AST back in the canonical style and parse again
    re_reqs, re_meta = [], []

    def viol(kind, cat, x, detail):
        d = descs[x["job"] - 1]
        rep.violation("C12|parser|%s|%s|%s" % (d["name"], cat, kind),
                      {"desc": d, "pdl": x["text"], "miss": x.get("miss"), "observed": detail})

    for i, (cat, x) in enumerate(allsrc):
        r = res.get(i, {})
        p = r.get("parse", {})
        rep.validated()
        d = descs[x["job"] - 1]
        if "panic" in p or "timeout" in r or "abnormal" in r:
            viol("abnormal:" + norm_msg(p.get("panic", "")), cat, x, p)
            continue
        if cat == "nearmiss":
            if "ok" in p:
                viol("accepts_near_miss:" + x["miss"], cat, x, {"parsed_as": pdl.ast_to_desc(p["ok"])})
            elif p.get("emit") != "ok":
                viol("diagnostic_does_not_render", cat, x, p)
            continue
        if "ok" not in p:
            viol("rejects_valid_text" + (":0X_literal" if cat == "0X" else ""), cat, x, p)
            continue
        ast = p["ok"]
        try:
            got = pdl.ast_to_desc(ast)
        except Exception as e:  # noqa
            viol("ast_unmappable", cat, x, repr(e))
            continue
        if not pdl.same_desc(got, d):
            viol("ast_differs", cat, x, {"parsed_as": got})
            continue
        tb = x["text"].encode()
        bad = None
        for loc in x["locs"]:
            try:
                node = ast_node(ast, loc["path"])
            except (KeyError, IndexError, TypeError):
                bad = ("no_node", loc["path"], None)
                break
            l = node["loc"]
            s, e = l["start"], l["end"]
            want_s = loc["start"]
            if (s["offset"], s["line"], s["column"]) != (want_s["off"], want_s["line"], want_s["col"]):
                bad = ("start", loc["path"], l)
                break
            if not (loc["endmin"]["off"] <= e["offset"] <= loc["endmax"]["off"]):
                bad = ("end_outside_[last_token_end,next_token_start]", loc["path"], l)
                break
            if (e["line"], e["column"]) != linecol(tb, e["offset"]) or e["offset"] > len(tb) or s["offset"] > e["offset"]:
                bad = ("end_line_column", loc["path"], l)
                break
        if bad:
            viol("loc_" + bad[0] + ":" + "/".join(str(q) for q in bad[1] if not isinstance(q, int)), cat, x,
                 {"path": bad[1], "got": bad[2], "predicted": [q for q in x["locs"] if q["path"] == bad[1]]})
            continue
        gc = [(c["text"], c["loc"]["start"]["offset"], c["loc"]["start"]["line"], c["loc"]["start"]["column"],
               c["loc"]["end"]["offset"], c["loc"]["end"]["line"], c["loc"]["end"]["column"]) for c in ast["comments"]]
        wc = [(c["text"], c["start"]["off"], c["start"]["line"], c["start"]["col"], c["end"]["off"], c["end"]["line"],
               c["end"]["col"]) for c in x["comments"]]
        if sorted(gc) != sorted(wc):
            viol("comments_differ", cat, x, {"got": gc[:6], "predicted": wc[:6]})
            continue
        re_reqs.append(dict(rid=len(re_reqs), name="r.pdl", src=pdl.render(got), want=["parse"]))
        re_meta.append((cat, x, got))
        if rep.coverage["traces_validated_against_impl"] % 397 == 1:
            rep.sample({"desc": d["name"], "text": x["text"][:300], "ranges_checked": len(x["locs"]), "comments": len(wc)})
    res2 = run_driver(ctx.driver(), re_reqs, tag="c12b")
    for i, (cat, x, got) in enumerate(re_meta):
        p = res2.get(i, {}).get("parse", {})
        rep.validated()
        if "ok" not in p or not pdl.same_desc(pdl.ast_to_desc(p["ok"]), got):
            viol("reprint_differs", cat, x, p if "ok" not in p else {"reparsed": pdl.ast_to_desc(p["ok"])})
    rep.notes["valid_renderings"] = len(srcs)
    rep.notes["renderings_with_0X_literals"] = len(srcs0x)
    rep.notes["near_miss_renderings"] = len(srcsnm)
    rep.notes["descriptions"] = len(descs)
    rep.assumptions += ["a node's range starts at its first token and ends between the end of its last token and the start of the next token "
                        "(a rule's span may absorb following blanks and comments)",
                        "Dev_KeywordNeedsBlank: declaration keywords are followed by a blank in every valid rendering (the grammar's keyword rules require it)"]
    return rep.finish()


# ------------------------------------------------------------------------------ C08 / C09 static semantics
def analyzer_stage(ctx, rep, want_gen=False):
    # base descriptions: the kit, and descriptions written by the builder machine (every edit site / permutation /
    # group wrapping of PdlGen applies to them as well)
    descs = kit.build(ctx.tier) + kit.schema_descs(ctx.tier) + builder_descs(ctx.tier, ctx.seed, None, n=48 if ctx.tier == "quick" else 400)
    dp = os.path.join(ctx.tmp, "adescs.ndjson")
    write_ndjson(dp, descs)
    lines, stats = tlc("MC_Analyzer", "MC_Analyzer.cfg", dict(DESCS=dp), tag="an")
    rep.tlc_stats(stats)
    recs = parse_tagged(lines, "AN")
    reqs = []
    for i, r in enumerate(recs):
        r["rid"] = i
        r["base"] = descs[r["job"] - 1]
        r["d"]["name"] = r["base"]["name"]
        r["src"] = pdl.render(r["d"])
        want = ["analyze"]
        if want_gen and r["k"] in ("group", "base"):
            want += ["rust", "python", "cxx"]
        reqs.append(dict(rid=i, name=r["base"]["name"] + ".pdl", src=r["src"], want=want))
    res = run_driver(ctx.driver(), reqs, tag="an")
    for r in recs:
        r["resp"] = res.get(r["rid"], {})
    return descs, recs


def impl_codes(a):
    return sorted({int(d["code"][1:]) for d in a.get("diags", []) if d.get("code")})


def check_c08(ctx):
    rep = Report("C08", ctx.tier, ctx.seed)
    descs, recs = analyzer_stage(ctx, rep)
    per_rule = {}
    for r in recs:
        if r["k"] not in ("edit", "ok"):
            continue
        rep.validated()
        resp = r["resp"]
        a = resp.get("analyze", {})
        p = resp.get("parse", {})
        name = r["base"]["name"]
        site = "/".join(str(x).strip('"') for x in r["site"])

        def viol(kind, detail):
            rep.violation("C08|analyzer|%s|E%d@%s|%s" % (name, r["rule"], site, kind),
                          {"desc": r["d"], "pdl": r["src"], "edit": {"rule": "E%d" % r["rule"], "site": r["site"]},
                           "expected": {"accepted": r["accepted"], "first_failing_pass": r["pass"], "codes": r["codes"]},
                           "observed": detail})
        if "ok" not in p:
            viol("edited_text_does_not_parse", p)
            continue
        if "panic" in a or "timeout" in resp or "abnormal" in resp:
            viol("analyzer_abnormal:" + norm_msg(a.get("panic", "")), a)
            continue
        if r["k"] == "ok":
            if "ok" not in a:
                viol("rejects_boundary_legal:" + ",".join("E%d" % c for c in impl_codes(a)), a)
            continue
        per_rule[r["rule"]] = per_rule.get(r["rule"], 0) + 1
        if "ok" in a:
            viol("accepts_ill_formed", {"accepted": True})
            continue
        got = impl_codes(a)
        first = r["pass"]
        rulepass = {1: 0, 11: 2, 38: 7, 39: 8, 51: 12}.get(r["rule"])
        if r["rule"] in r["codes"] and r["rule"] not in got:
            viol("missing_code:got_" + ",".join("E%d" % c for c in got), a)
        elif not set(got) <= set(r["codes"]):
            viol("unexpected_code:" + ",".join("E%d" % c for c in sorted(set(got) - set(r["codes"]))), a)
        n = a.get("source_len", 0)
        for dg in a.get("diags", []):
            for lb in dg.get("labels", []):
                if not (0 <= lb["start"] <= lb["end"] <= n):
                    viol("label_outside_file", dg)
        if a.get("emit") != "ok":
            viol("diagnostic_does_not_render", a.get("emit"))
        if rep.coverage["traces_validated_against_impl"] % 797 == 1:
            rep.sample({"base": name, "rule": "E%d" % r["rule"], "site": r["site"], "expected_codes": r["codes"], "reported": got})
    rep.notes["edits_per_rule"] = {"E%d" % k: v for k, v in sorted(per_rule.items())}
    rep.notes["rules_exercised"] = len(per_rule)
    rep.assumptions += ["rule predicates and the pass order are spec/PdlAnalyzer.tla; an edited description must be rejected, "
                        "with the edit's code whenever no earlier pass is violated, and only with codes of the first violated pass",
                        "E9/E10 (test declarations are dropped by the parser) and checksum rules (stub) are not obligations"]
    return rep.finish()


def decl_set(d):
    x = json.loads(json.dumps(d))
    return sorted(json.dumps(y, sort_keys=True) for y in x["decls"])


def check_c09(ctx):
    rep = Report("C09", ctx.tier, ctx.seed)
    descs, recs = analyzer_stage(ctx, rep, want_gen=True)
    base_resp = {r["job"]: r for r in recs if r["k"] == "base"}
    for r in recs:
        if r["k"] not in ("base", "perm", "group"):
            continue
        rep.validated()
        a = r["resp"].get("analyze", {})
        name = r["base"]["name"]

        def viol(kind, detail):
            rep.violation("C09|analyzer|%s|%s|%s" % (name, r["k"], kind),
                          {"desc": r["d"], "pdl": r["src"], "variant": r["k"], "observed": detail,
                           "expected": {"accepted": True}})
        if "ok" not in a:
            viol("rejects_well_formed:" + ",".join("E%d" % c for c in impl_codes(a)) + norm_msg(a.get("panic", "")), a)
            continue
        try:
            got = pdl.ast_to_desc(a["ok"])
        except Exception as e:  # noqa
            viol("analyzed_unmappable", repr(e))
            continue
        if decl_set(got) != decl_set(r["analyzed"]):
            viol("analyzed_declarations_differ", {"analyzed": got, "expected": r["analyzed"]})
            continue
        if r["k"] == "group":
            b = base_resp.get(r["job"])
            for be in ("rust", "python", "cxx"):
                ga, gb = r["resp"].get(be, {}), (b["resp"].get(be, {}) if b else {})
                if "ok" in ga and "ok" in gb:
                    if ga["ok"] != gb["ok"]:
                        viol("generated_%s_differs_from_inlined_form" % be, {"grouped_sha": sha(ga["ok"]), "inlined_sha": sha(gb["ok"])})
                elif ("ok" in ga) != ("ok" in gb):
                    viol("generation_outcome_differs_%s" % be, {"grouped": json.dumps(ga)[:200], "inlined": json.dumps(gb)[:200]})
        if rep.coverage["traces_validated_against_impl"] % 397 == 1:
            rep.sample({"base": name, "variant": r["k"], "pdl": r["src"][:300]})
    # descriptions written by the builder machine (spec/PdlBuild.tla): accepted, analyzed to the inlined form,
    # and generating the same code as the inlined form written out by hand
    brecs = [r for r in builder_run(BUILD_SEED, 64 if ctx.tier == "quick" else 600) if r["accepted"]]
    if ctx.tier == "thorough":
        brecs += [r for r in builder_run(ctx.seed, 600) if r["accepted"]]
    reqs = []
    for r in brecs:
        r["d"]["name"] = r["name"]
        r["analyzed"]["name"] = r["name"]
        r["src"] = pdl.render(r["d"])
        hasg = any(x["kind"] == "group" for x in r["d"]["decls"])
        r["rid"] = len(reqs)
        reqs.append(dict(rid=len(reqs), name=r["name"] + ".pdl", src=r["src"], want=["analyze"] + (["rust", "python", "cxx"] if hasg else [])))
        r["rid2"] = None
        if hasg:
            r["rid2"] = len(reqs)
            reqs.append(dict(rid=len(reqs), name=r["name"] + ".pdl", src=pdl.render(r["analyzed"]), want=["analyze", "rust", "python", "cxx"]))
    res = run_driver(ctx.driver(), reqs, tag="c09b")
    ngrouped = 0
    for r in brecs:
        rep.validated()
        resp = res.get(r["rid"], {})
        a = resp.get("analyze", {})

        def bviol(kind, detail):
            rep.violation("C09|analyzer|%s|builder|%s" % (r["name"], kind),
                          {"desc": r["d"], "pdl": r["src"], "variant": "builder", "observed": detail, "expected": {"accepted": True}})
        if "ok" not in a:
            bviol("rejects_well_formed:" + ",".join("E%d" % c for c in impl_codes(a)) + norm_msg(a.get("panic", "")), a)
            continue
        try:
            got = pdl.ast_to_desc(a["ok"])
        except Exception as e:  # noqa
            bviol("analyzed_unmappable", repr(e))
            continue
        if decl_set(got) != decl_set(r["analyzed"]):
            bviol("analyzed_declarations_differ", {"analyzed": got, "expected": r["analyzed"]})
            continue
        if r["rid2"] is not None:
            ngrouped += 1
            inl = res.get(r["rid2"], {})
            for be in ("rust", "python", "cxx"):
                ga, gb = resp.get(be, {}), inl.get(be, {})
                if "ok" in ga and "ok" in gb:
                    if ga["ok"] != gb["ok"]:
                        bviol("generated_%s_differs_from_inlined_form" % be, {"grouped_sha": sha(ga["ok"]), "inlined_sha": sha(gb["ok"])})
                elif ("ok" in ga) != ("ok" in gb):
                    bviol("generation_outcome_differs_%s" % be, {"grouped": json.dumps(ga)[:200], "inlined": json.dumps(gb)[:200]})
    rep.notes["builder_descriptions"] = len(brecs)
    rep.notes["builder_descriptions_with_groups"] = ngrouped
    # layout / radix: token-level re-layouts of the base descriptions must be accepted too
    dp = os.path.join(ctx.tmp, "ldescs.ndjson")
    write_ndjson(dp, descs)
    n = 60 if ctx.tier == "quick" else 1500
    lines, stats = tlc("MC_Syntax", "MC_Syntax.cfg", dict(DESCS=dp, ALLOW0X="1", NEARMISS="0"), workers=1,
                       simulate="num=%d" % n, extra=["-depth", "4000", "-seed", str(ctx.seed + 1)], tag="c09syn", timeout=3000)
    rep.tlc_stats(stats)
    seen, srcs = set(), []
    for x in parse_tagged(lines, "SRC"):
        if (x["job"], x["text"]) not in seen:
            seen.add((x["job"], x["text"]))
            srcs.append(x)
    reqs = [dict(rid=i, name=descs[x["job"] - 1]["name"] + ".pdl", src=x["text"], want=["analyze"]) for i, x in enumerate(srcs)]
    res = run_driver(ctx.driver(), reqs, tag="c09l")
    for i, x in enumerate(srcs):
        rep.validated()
        a = res.get(i, {}).get("analyze", {})
        b = base_resp.get(x["job"])
        if b is None:
            continue
        ba = b["resp"].get("analyze", {})
        same = ("ok" in a) == ("ok" in ba) and impl_codes(a) == impl_codes(ba)
        if same and "ok" in a:
            same = decl_set(pdl.ast_to_desc(a["ok"])) == decl_set(pdl.ast_to_desc(ba["ok"]))
        if not same:
            rep.violation("C09|analyzer|%s|layout|verdict_depends_on_layout" % descs[x["job"] - 1]["name"],
                          {"desc": descs[x["job"] - 1], "pdl": x["text"], "observed": {"relayout": json.dumps(a)[:300], "canonical": json.dumps(ba)[:300]}})
    rep.notes["relayouts"] = len(srcs)
    rep.notes["variants"] = {k: sum(1 for r in recs if r["k"] == k) for k in ("base", "perm", "group")}
    rep.assumptions += ["the analyzed declarations are compared as a set (declaration order is free), loc fields ignored",
                        "Ref (Identifiers): a group's fields belong to the scope of the packet that uses the group"]
    return rep.finish()


CHECKS = {p: (lambda ctx, p=p: check_rust_codec(p, ctx)) for p in CODEC_MODES}
CHECKS["C08"] = check_c08
CHECKS["C09"] = check_c09
CHECKS["C12"] = check_c12
CHECKS["C11"] = check_c11
CHECKS["C10"] = check_c10
CHECKS["C16"] = check_c16
CHECKS["C07"] = check_c07
CHECKS["C19"] = check_c19
CHECKS["C14"] = check_c14
CHECKS["C13"] = check_c13
CHECKS["C17"] = check_c17
CHECKS["C15"] = check_c15
CHECKS["C06"] = check_c06


def main():
    ap = argparse.ArgumentParser()
    sub = ap.add_subparsers(dest="cmd")
    c = sub.add_parser("check")
    c.add_argument("prop")
    c.add_argument("--tier", default=None)
    sub.add_parser("setup")
    r = sub.add_parser("replay")
    r.add_argument("path")
    a = ap.parse_args()
    # one check at a time: the checks share build directories under .work
    import fcntl
    os.makedirs(WORK, exist_ok=True)
    lockf = open(os.path.join(WORK, ".lock"), "w")
    fcntl.flock(lockf, fcntl.LOCK_EX)
    if a.cmd == "setup":
        os.makedirs(WORK, exist_ok=True)
        sh(["tlc", "-h"], check=False)
        build_driver()
        print("setup ok")
        return 0
    if a.cmd == "check":
        tier = a.tier or os.environ.get("VERIF_TIER") or "quick"
        seed = int(os.environ.get("VERIF_SEED", "1"))
        ctx = Ctx(tier, seed)
        try:
            return CHECKS[a.prop](ctx)
        except ToolError as e:
            print("TOOL-ERROR: " + str(e)[:8000], file=sys.stderr)
            return 2
        finally:
            ctx.cleanup()
    if a.cmd == "replay":
        rp = json.load(open(a.path))
        prop = rp["property"]
        os.environ["VERIF_REPLAY"] = "1"
        if isinstance(rp.get("desc"), dict) and rp["desc"].get("name"):
            # re-run the property's check on the one description of the replay file, against the current tree
            os.environ["VERIF_ONLY"] = rp["desc"]["name"]
            ctx = Ctx(os.environ.get("VERIF_TIER") or "quick", int(os.environ.get("VERIF_SEED", "1")))
            try:
                print("replaying %s on description %s (fingerprint %s)" % (prop, rp["desc"]["name"], rp.get("fingerprint")))
                return CHECKS[prop](ctx)
            except ToolError as e:
                print("TOOL-ERROR: " + str(e)[-3000:], file=sys.stderr)
                return 2
            finally:
                ctx.cleanup()
        # a source text (C10 text mutants, C12 renderings): hand it to the real parser / analyzer again
        drv = build_driver()
        res = run_driver(drv, [dict(rid=0, name="replay.pdl", src=rp["pdl"], want=["parse", "analyze", "json"])], tag="replay")
        r = res.get(0, {})
        summary = {k: (("ok" if "ok" in v else v) if isinstance(v, dict) else v) for k, v in r.items()}
        print(json.dumps(summary)[:2000])
        bad = any(isinstance(v, dict) and ("panic" in v or "timeout" in v) for v in r.values()) or "abnormal" in r
        if bad:
            print("VIOLATION property=%s replay=%s" % (prop, a.path))
        return 1 if bad else 0
    ap.print_help()
    return 2


if __name__ == "__main__":
    sys.exit(main())
