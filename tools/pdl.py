"""Description data model shared by the orchestrator: constructors for the JSON form of
spec/PdlDesc.tla, limb conversion, and the canonical renderer to PDL text.

No language semantics lives here: descriptions are data, the renderer prints them in one
fixed layout (validated by C12: what it prints must parse back to what it was given)."""
import json


def limbs(n):
    out = []
    while n > 0:
        out.append(n & 0xFF)
        n >>= 8
    return out


def unlimbs(ls):
    n = 0
    for i, b in enumerate(ls):
        n |= b << (8 * i)
    return n


# ---------------------------------------------------------------- fields
def _field(kind, **kw):
    f = dict(kind=kind, id="", width=0, v=[], type="", tag="", target="", count=-1, mod=-1,
             cond="", condv=0, condtag="", cons=[], size=0)
    f.update(kw)
    return f


def scalar(id, width, cond=None):
    f = _field("scalar", id=id, width=width)
    return _opt(f, cond)


def _opt(f, cond):
    if cond is not None:
        f["cond"], f["condv"] = cond[0], cond[1]
    return f


def reserved(width):
    return _field("reserved", width=width)


def fixed(value, width):
    return _field("fixed", v=limbs(value), width=width)


def fixedenum(tag, enum):
    return _field("fixedenum", tag=tag, type=enum)


def size(target, width):
    return _field("size", target=target, width=width)


def count(target, width):
    return _field("count", target=target, width=width)


def elementsize(target, width):
    return _field("elementsize", target=target, width=width)


def payload(mod=-1):
    return _field("payload", mod=mod)


def body():
    return _field("body")


def array(id, elem, count=-1, mod=-1):
    """elem: int (scalar width) or str (type id)"""
    if isinstance(elem, int):
        return _field("array", id=id, width=elem, count=count, mod=mod)
    return _field("array", id=id, type=elem, count=count, mod=mod)


def typedef(id, type, cond=None):
    return _opt(_field("typedef", id=id, type=type), cond)


def padding(octets):
    return _field("padding", size=octets)


def group(gid, cons=()):
    return _field("group", type=gid, cons=list(cons))


def checksum_start(id):
    return _field("checksum_start", target=id)


def cons(id, value):
    """value: int or tag name"""
    if isinstance(value, int):
        return dict(id=id, v=limbs(value), tag="")
    return dict(id=id, v=[], tag=value)


# ---------------------------------------------------------------- decls
def _decl(kind, id, **kw):
    d = dict(kind=kind, id=id, width=0, tags=[], parent="", cons=[], fields=[], fn="")
    d.update(kw)
    return d


def tag(id, value):
    return dict(k="value", id=id, v=limbs(value), lo=[], hi=[], sub=[])


def trange(id, lo, hi, sub=()):
    return dict(k="range", id=id, v=[], lo=limbs(lo), hi=limbs(hi), sub=list(sub))


def tother(id):
    return dict(k="other", id=id, v=[], lo=[], hi=[], sub=[])


def enum(id, width, tags):
    return _decl("enum", id, width=width, tags=list(tags))


def packet(id, fields, parent="", cons=()):
    return _decl("packet", id, fields=list(fields), parent=parent, cons=list(cons))


def struct(id, fields, parent="", cons=()):
    return _decl("struct", id, fields=list(fields), parent=parent, cons=list(cons))


def groupdecl(id, fields):
    return _decl("group", id, fields=list(fields))


def custom(id, width, fn="fn"):
    return _decl("custom", id, width=width if width is not None else -1, fn=fn)


def checksum(id, width, fn="fn"):
    return _decl("checksum", id, width=width, fn=fn)


def desc(endian, decls, name=""):
    return dict(endian=endian, decls=list(decls), name=name)


def twin(d):
    t = json.loads(json.dumps(d))
    t["endian"] = "big" if d["endian"] == "little" else "little"
    return t


# ---------------------------------------------------------------- renderer
def _num(ls, hexa=False):
    n = unlimbs(ls)
    return hex(n) if hexa else str(n)


def render_cons(c):
    return "%s = %s" % (c["id"], c["tag"] if c["tag"] else _num(c["v"]))


def render_field(f):
    k = f["kind"]
    if k == "scalar":
        s = "%s : %d" % (f["id"], f["width"])
    elif k == "reserved":
        s = "_reserved_ : %d" % f["width"]
    elif k == "fixed":
        s = "_fixed_ = %s : %d" % (_num(f["v"]), f["width"])
    elif k == "fixedenum":
        s = "_fixed_ = %s : %s" % (f["tag"], f["type"])
    elif k == "size":
        s = "_size_(%s) : %d" % (f["target"], f["width"])
    elif k == "count":
        s = "_count_(%s) : %d" % (f["target"], f["width"])
    elif k == "elementsize":
        s = "_elementsize_(%s) : %d" % (f["target"], f["width"])
    elif k == "payload":
        s = "_payload_" + (" : [+%d]" % f["mod"] if f["mod"] >= 0 else "")
    elif k == "body":
        s = "_body_"
    elif k == "array":
        el = f["type"] if f["type"] else str(f["width"])
        inner = str(f["count"]) if f["count"] >= 0 else ("+%d" % f["mod"] if f["mod"] >= 0 else "")
        s = "%s : %s[%s]" % (f["id"], el, inner)
    elif k == "typedef":
        s = "%s : %s" % (f["id"], f["type"])
    elif k == "padding":
        s = "_padding_[%d]" % f["size"]
    elif k == "group":
        s = f["type"]
        if f["cons"]:
            s += " { %s }" % ", ".join(render_cons(c) for c in f["cons"])
    elif k == "checksum_start":
        s = "_checksum_start_(%s)" % f["target"]
    else:
        raise ValueError(k)
    if f["cond"]:
        s += " if %s = %s" % (f["cond"], f["condtag"] if f.get("condtag") else f["condv"])
    return s


def render_tag(t):
    if t["k"] == "value":
        return "%s = %s" % (t["id"], _num(t["v"]))
    if t["k"] == "other":
        return "%s = .." % t["id"]
    s = "%s = %s..%s" % (t["id"], _num(t["lo"]), _num(t["hi"]))
    if t["sub"]:
        s += " { %s }" % ", ".join(render_tag(x) for x in t["sub"])
    return s


def render_decl(x):
    k = x["kind"]
    if k == "enum":
        return "enum %s : %d {\n%s\n}" % (x["id"], x["width"],
                                           ",\n".join("  " + render_tag(t) for t in x["tags"]))
    if k in ("packet", "struct"):
        head = "%s %s" % (k, x["id"])
        if x["parent"]:
            head += " : " + x["parent"]
            if x["cons"]:
                head += " (%s)" % ", ".join(render_cons(c) for c in x["cons"])
        return "%s {\n%s\n}" % (head, ",\n".join("  " + render_field(f) for f in x["fields"]))
    if k == "group":
        return "group %s {\n%s\n}" % (x["id"], ",\n".join("  " + render_field(f) for f in x["fields"]))
    if k == "custom":
        if x["width"] >= 0:
            return 'custom_field %s : %d "%s"' % (x["id"], x["width"], x["fn"])
        return 'custom_field %s "%s"' % (x["id"], x["fn"])
    if k == "checksum":
        return 'checksum %s : %d "%s"' % (x["id"], x["width"], x["fn"])
    raise ValueError(k)


def render(d):
    out = ["%s_endian_packets" % d["endian"]]
    for x in d["decls"]:
        out.append(render_decl(x))
    return "\n".join(out) + "\n"


if __name__ == "__main__":
    import sys
    for line in open(sys.argv[1]):
        print(render(json.loads(line)))


# ---------------------------------------------------------------- AST (serde JSON of ast::File) -> description
def ast_to_desc(ast, name=""):
    """structural mapping of the parser's output onto the description schema (data, no semantics)"""
    def cons_of(c):
        if c.get("tag_id") is not None:
            return dict(id=c["id"], v=[], tag=c["tag_id"])
        return dict(id=c["id"], v=limbs(c["value"]), tag="")

    def tag_of(t):
        if "range" in t:
            return trange(t["id"], t["range"]["start"], t["range"]["end"], [tag(x["id"], x["value"]) for x in t["tags"]])
        if "value" in t:
            return tag(t["id"], t["value"])
        return tother(t["id"])

    def mod_of(m):
        return -1 if m is None else int(m.lstrip("+"), 0)

    def field_of(f):
        k = f["kind"]
        if k == "scalar_field":
            r = scalar(f["id"], f["width"])
        elif k == "reserved_field":
            r = reserved(f["width"])
        elif k == "fixed_field" and "enum_id" in f:
            r = fixedenum(f["tag_id"], f["enum_id"])
        elif k == "fixed_field":
            r = fixed(f["value"], f["width"])
        elif k == "size_field":
            r = size(f["field_id"], f["width"])
        elif k == "count_field":
            r = count(f["field_id"], f["width"])
        elif k == "elementsize_field":
            r = elementsize(f["field_id"], f["width"])
        elif k == "payload_field":
            r = payload(mod_of(f.get("size_modifier")))
        elif k == "body_field":
            r = body()
        elif k == "array_field":
            el = f["type_id"] if f.get("type_id") is not None else f["width"]
            r = array(f["id"], el, count=-1 if f.get("size") is None else f["size"], mod=mod_of(f.get("size_modifier")))
        elif k == "typedef_field":
            r = typedef(f["id"], f["type_id"])
        elif k == "padding_field":
            r = padding(f["size"])
        elif k == "group_field":
            r = group(f["group_id"], [cons_of(c) for c in f["constraints"]])
        elif k == "checksum_field":
            r = checksum_start(f["field_id"])
        elif k == "flag_field":
            r = scalar(f["id"], 1)
        else:
            raise ValueError(k)
        c = f.get("cond")
        if c is not None:
            r["cond"] = c["id"]
            if c.get("tag_id") is not None:
                r["condtag"] = c["tag_id"]
            else:
                r["condv"] = c["value"]
        return r

    decls = []
    for x in ast["declarations"]:
        k = x["kind"]
        if k == "enum_declaration":
            decls.append(enum(x["id"], x["width"], [tag_of(t) for t in x["tags"]]))
        elif k in ("packet_declaration", "struct_declaration"):
            mk = packet if k.startswith("packet") else struct
            decls.append(mk(x["id"], [field_of(f) for f in x["fields"]], parent=x.get("parent_id") or "",
                            cons=[cons_of(c) for c in x["constraints"]]))
        elif k == "group_declaration":
            decls.append(groupdecl(x["id"], [field_of(f) for f in x["fields"]]))
        elif k == "custom_field_declaration":
            decls.append(custom(x["id"], x.get("width"), x["function"]))
        elif k == "checksum_declaration":
            decls.append(checksum(x["id"], x["width"], x["function"]))
        elif k == "test_declaration":
            decls.append(_decl("test", x["type_id"]))
    e = ast["endianness"]["value"]
    return desc("little" if e == "little_endian" else "big", decls, name=name)


def same_desc(a, b):
    x = json.loads(json.dumps(a))
    y = json.loads(json.dumps(b))
    x.pop("name", None)
    y.pop("name", None)
    return json.dumps(x, sort_keys=True) == json.dumps(y, sort_keys=True)
