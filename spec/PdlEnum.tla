------------------------------ MODULE PdlEnum ------------------------------
(***************************************************************************)
(* Enum conversion semantics (reference.md "Enum"; property C15).          *)
(*                                                                         *)
(* An enum of width w maps every integer x < 2^w to                        *)
(*   - the named tag with value x, if one is declared (at top level or     *)
(*     nested inside a range): class "tag";                                *)
(*   - else the range variant carrying x, if x lies inside a declared      *)
(*     range (both ends inclusive): class "range";                         *)
(*   - else the default variant carrying x, if the enum is open: "other";  *)
(*   - else nothing: the conversion fails: "invalid".                      *)
(* Integers >= 2^w are always rejected.  Converting back yields x.         *)
(***************************************************************************)
EXTENDS PdlDesc

(* all named value tags, flattened: top-level values and range sub-tags *)
NamedTags(e) ==
  Concat([i \in 1..Len(e.tags) |->
            IF e.tags[i].k = "value" THEN <<e.tags[i]>>
            ELSE IF e.tags[i].k = "range" THEN e.tags[i].sub
            ELSE <<>>])

RangeTags(e) == SelectSeq(e.tags, LAMBDA t : t.k = "range")
IsOpen(e) == \E i \in 1..Len(e.tags) : e.tags[i].k = "other"
OtherTag(e) == e.tags[CHOOSE i \in 1..Len(e.tags) : e.tags[i].k = "other"]

HasNamedTag(e, id) == \E i \in 1..Len(NamedTags(e)) : NamedTags(e)[i].id = id
NamedTag(e, id) == NamedTags(e)[CHOOSE i \in 1..Len(NamedTags(e)) : NamedTags(e)[i].id = id]
HasAnyTag(e, id) == \E i \in 1..Len(e.tags) : e.tags[i].id = id
                    \/ HasNamedTag(e, id)

TagBits(e, id) == BitsOfLimbs(NamedTag(e, id).v, e.width)

(* classification of x, given as a bit sequence of length e.width *)
ClassOfBits(e, x) ==
  LET named == NamedTags(e)
      ranges == RangeTags(e)
      w == e.width
  IN IF \E i \in 1..Len(named) : FitsLimbs(named[i].v, w) /\ BitsOfLimbs(named[i].v, w) = x
     THEN [class |-> "tag",
           id |-> named[CHOOSE i \in 1..Len(named) :
                            FitsLimbs(named[i].v, w) /\ BitsOfLimbs(named[i].v, w) = x].id]
     ELSE IF \E i \in 1..Len(ranges) :
                /\ LeqBits(BitsOfLimbs(ranges[i].lo, w), x)
                /\ LeqBits(x, BitsOfLimbs(ranges[i].hi, w))
     THEN [class |-> "range",
           id |-> ranges[CHOOSE i \in 1..Len(ranges) :
                            /\ LeqBits(BitsOfLimbs(ranges[i].lo, w), x)
                            /\ LeqBits(x, BitsOfLimbs(ranges[i].hi, w))].id]
     ELSE IF IsOpen(e) THEN [class |-> "other", id |-> OtherTag(e).id]
     ELSE [class |-> "invalid", id |-> ""]

EnumValidBits(e, x) == ClassOfBits(e, x).class # "invalid"

(* conversion from an arbitrary integer given as limbs (may exceed 2^w) *)
ClassOfLimbs(e, limbs) ==
  IF ~FitsLimbs(limbs, e.width) THEN [class |-> "invalid", id |-> ""]
  ELSE ClassOfBits(e, BitsOfLimbs(limbs, e.width))

(* the default value of the type (rust guide): first tag; for a leading    *)
(* range its first nested tag, else the range's lower bound                *)
DefaultLimbs(e) ==
  LET t == e.tags[1]
  IN IF t.k = "value" THEN t.v
     ELSE IF t.k = "range" THEN (IF t.sub # <<>> THEN t.sub[1].v ELSE t.lo)
     ELSE <<>>

(* boundary neighbourhood of an enum: every tag and range bound, +-1, 0,   *)
(* 2^w - 1 - as bit sequences of width w                                   *)
EnumBoundaryBits(e) ==
  LET w == e.width
      named == NamedTags(e)
      ranges == RangeTags(e)
      pts == {BitsOfLimbs(named[i].v, w) : i \in 1..Len(named)}
             \cup {BitsOfLimbs(ranges[i].lo, w) : i \in 1..Len(ranges)}
             \cup {BitsOfLimbs(ranges[i].hi, w) : i \in 1..Len(ranges)}
             \cup {Zeros(w), Ones(w)}
  IN pts \cup {IncBits(p) : p \in pts} \cup {DecBits(p) : p \in pts}

=============================================================================
