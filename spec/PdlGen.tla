------------------------------- MODULE PdlGen -------------------------------
(***************************************************************************)
(* Description transformations used to quantify over *programs*:           *)
(*   Edits(d)     - for every well-formedness rule, the smallest change of *)
(*                  d that violates that rule, at every site where the    *)
(*                  rule can be violated (root / child / struct / group    *)
(*                  context, every field of the right kind), and at the    *)
(*                  numeric boundary (2^w where 2^w - 1 is the largest     *)
(*                  legal value);                                          *)
(*   OkEdits(d)   - the same sites at the legal side of the boundary       *)
(*                  (2^w - 1, adjacent ranges, ...): must stay accepted;   *)
(*   Permutations, group wrapping (C09) are in MC_Analyzer.                *)
(* Every edit is [rule, site, d] with rule the ErrorCode number.           *)
(***************************************************************************)
EXTENDS PdlAnalyzer

F0 == [kind |-> "scalar", id |-> "", width |-> 0, v |-> <<>>, type |-> "", tag |-> "", target |-> "", count |-> -1,
       mod |-> -1, cond |-> "", condv |-> 0, condtag |-> "", cons |-> <<>>, size |-> 0]
MkScalar(id, w) == [F0 EXCEPT !.id = id, !.width = w]
MkTypedef(id, ty) == [F0 EXCEPT !.kind = "typedef", !.id = id, !.type = ty]
MkGroupF(ty) == [F0 EXCEPT !.kind = "group", !.type = ty]
MkSize(kind, target, w) == [F0 EXCEPT !.kind = kind, !.target = target, !.width = w]
MkFixedEnum(tag, ty) == [F0 EXCEPT !.kind = "fixedenum", !.tag = tag, !.type = ty]
MkArray(id, w, c) == [F0 EXCEPT !.kind = "array", !.id = id, !.width = w, !.count = c]
MkCons(id, v, tag) == [id |-> id, v |-> v, tag |-> tag]
MkTag(id, v) == [k |-> "value", id |-> id, v |-> v, lo |-> <<>>, hi |-> <<>>, sub |-> <<>>]
MkRange(id, lo, hi) == [k |-> "range", id |-> id, v |-> <<>>, lo |-> lo, hi |-> hi, sub |-> <<>>]
MkOther(id) == [k |-> "other", id |-> id, v |-> <<>>, lo |-> <<>>, hi |-> <<>>, sub |-> <<>>]

Pow2Limbs(w) == LimbsOfBits(OneHot(w + 1, w + 1))        \* 2^w, w <= 63
MaxL(w) == LimbsOfBits(Ones(w))                          \* 2^w - 1

AddField(d, i, f) == [d EXCEPT !.decls[i].fields = Append(@, f)]
InsField(d, i, j, f) == [d EXCEPT !.decls[i].fields = SubSeq(@, 1, j - 1) \o <<f>> \o SubSeq(@, j, Len(@))]
SetField(d, i, j, f) == [d EXCEPT !.decls[i].fields[j] = f]
AddDecl(d, x) == [d EXCEPT !.decls = Append(@, x)]
AddCons(d, i, c) == [d EXCEPT !.decls[i].cons = Append(@, c)]
AddTag(d, i, t) == [d EXCEPT !.decls[i].tags = Append(@, t)]

E(rule, site, d2) == [rule |-> rule, site |-> [k \in 1..Len(site) |-> ToString(site[k])], d |-> d2]

IncLimbs(l) == LimbsOfBits(IncBits(B64(l)))
InTagValues(e, v) == \E t \in 1..Len(AllTagValues(e)) : EqL(AllTagValues(e)[t], v)
HasFreshInRange(e, t) == ~InTagValues(e, e.tags[t].lo) \/ ~InTagValues(e, e.tags[t].hi)
FreshInRange(e, t) == IF ~InTagValues(e, e.tags[t].lo) THEN e.tags[t].lo ELSE e.tags[t].hi

IdsOfKind(d, ks) == {d.decls[i].id : i \in {j \in Decls(d) : d.decls[j].kind \in ks}}
Pick(s) == CHOOSE x \in s : TRUE

Children1(d, i) == {c \in PS(d) : d.decls[c].parent = d.decls[i].id}
HasKids(d, i) == Children1(d, i) # {}
(* fields of the parent chain of child c, by kind (not inlined: the kit's inheritance trees use no groups) *)
ParentFieldsOf(d, c) == ScopeFields(d, d.decls[c].parent, 8)
PF(d, c, P(_)) == {k \in 1..Len(ParentFieldsOf(d, c)) : P(ParentFieldsOf(d, c)[k])}
AlreadyConstrained(d, c) == {AncestorCons(d, d.decls[c].id, 8)[k].id : k \in 1..Len(AncestorCons(d, d.decls[c].id, 8))}
Kids(d) == {c \in PS(d) : d.decls[c].parent # ""}

(* <<i, j>>: field j of packet/struct/group declaration i satisfying P *)
FSites(d, ds, P(_, _)) == {p \in ds \X (1..24) : p[2] <= Len(d.decls[p[1]].fields) /\ P(d.decls[p[1]], p[2])}
Fld(d, p) == d.decls[p[1]].fields[p[2]]
(* <<i, t>>: tag t of enum i satisfying P *)
TSites(d, P(_, _)) == {p \in Enums(d) \X (1..12) : p[2] <= Len(d.decls[p[1]].tags) /\ P(d.decls[p[1]], p[2])}
(* <<c, k>>: field k visible to child c (its ancestors' fields) satisfying P *)
CSites(d, P(_, _)) == {p \in Kids(d) \X (1..24) : p[2] <= Len(ParentFieldsOf(d, p[1])) /\ P(p[1], ParentFieldsOf(d, p[1])[p[2]])}
CF(d, p) == ParentFieldsOf(d, p[1])[p[2]]
Free(d, c, f) == f.id # "" /\ f.id \notin AlreadyConstrained(d, c) /\ f.cond = "" /\ ~IsFlagIn(ParentFieldsOf(d, c), f)
FirstPS(d) == IF PS(d) = {} THEN {} ELSE {CHOOSE i \in PS(d) : \A j \in PS(d) : i <= j}

Edits(d) ==
  LET ps == PS(d)  en == Enums(d) IN
  (* E1: a second declaration with an existing identifier *)
  {E(1, <<i>>, AddDecl(d, d.decls[i])) : i \in Decls(d)}
  (* E2: a struct that contains itself; a declaration that is its own parent *)
  \cup {E(2, <<i>>, AddField(d, i, MkTypedef("zz_rec", d.decls[i].id))) : i \in {j \in ps : d.decls[j].kind = "struct"}}
  \cup {E(2, <<i, "parent">>, [d EXCEPT !.decls[i].parent = d.decls[i].id]) : i \in {j \in ps : d.decls[j].parent = ""}}
  (* E3 / E4: group field naming nothing / naming a non-group *)
  \cup {E(3, <<i>>, AddField(d, i, MkGroupF("Zz_Nowhere"))) : i \in ps}
  \cup {E(4, <<i>>, AddField(d, i, MkGroupF(Pick(IdsOfKind(d, {"enum", "struct", "packet", "custom"}))))) : i \in ps}
  (* E5 / E6: typedef or array naming nothing / naming a packet *)
  \cup {E(5, <<i>>, AddField(d, i, MkTypedef("zz_t", "Zz_Nowhere"))) : i \in ps}
  \cup {E(5, <<i, "array">>, AddField(d, i, [MkArray("zz_a", 0, 2) EXCEPT !.type = "Zz_Nowhere"])) : i \in ps}
  \cup {E(6, <<i>>, AddField(d, i, MkTypedef("zz_t", Pick(IdsOfKind(d, {"packet"})))))
          : i \in {j \in ps : IdsOfKind(d, {"packet"}) # {}}}
  (* E7 / E8: parent naming nothing / a declaration of another kind *)
  \cup {E(7, <<i>>, [d EXCEPT !.decls[i].parent = "Zz_Nowhere"]) : i \in {j \in ps : d.decls[j].parent = ""}}
  \cup {E(8, <<i>>, [d EXCEPT !.decls[i].parent = Pick(IdsOfKind(d, {"enum", "struct", "packet", "group", "custom"} \ {d.decls[i].kind}))])
          : i \in {j \in ps : d.decls[j].parent = "" /\ IdsOfKind(d, {"enum", "struct", "packet", "group", "custom"} \ {d.decls[j].kind}) # {}}}
  (* E11: a second field with an existing identifier *)
  \cup {E(11, p, AddField(d, p[1], MkScalar(Fld(d, p).id, 8))) : p \in FSites(d, ps, LAMBDA x, j : x.fields[j].id # "")}
  (* E11 through the scope: a child redeclares an identifier of an ancestor; a group with a named field is used twice *)
  \cup {E(11, p \o <<"scope">>, AddField(d, p[1], MkScalar(CF(d, p).id, 8))) : p \in CSites(d, LAMBDA c, f : f.id # "")}
  \cup {E(11, p \o <<"scope">>, AddField(AddField(d, p[1], [Fld(d, p) EXCEPT !.cons = <<>>]), p[1], [Fld(d, p) EXCEPT !.cons = <<>>]))
          : p \in FSites(d, ps, LAMBDA x, j : x.fields[j].kind = "group" /\ KindOf(d, x.fields[j].type) = "group"
                                               /\ \E k \in Fields(DeclOf(d, x.fields[j].type)) : DeclOf(d, x.fields[j].type).fields[k].id # "")}
  (* enums *)
  \cup {E(12, <<i>>, AddTag(d, i, MkTag(d.decls[i].tags[1].id, MaxL(d.decls[i].width)))) : i \in en}
  \cup {E(13, p, AddTag(d, p[1], MkTag("ZZ_NEW", d.decls[p[1]].tags[p[2]].v))) : p \in TSites(d, LAMBDA e, t : e.tags[t].k = "value")}
  \cup {E(14, <<i>>, AddTag(d, i, MkTag("ZZ_NEW", Pow2Limbs(d.decls[i].width)))) : i \in {j \in en : d.decls[j].width < 64}}
  \cup {E(40, <<i, "hi">>, AddTag(d, i, MkRange("ZZ_R", MaxL(d.decls[i].width), Pow2Limbs(d.decls[i].width))))
          : i \in {j \in en : d.decls[j].width < 64}}
  \cup {E(40, <<i, "order">>, AddTag(d, i, MkRange("ZZ_R", d.decls[i].tags[1].v, d.decls[i].tags[1].v)))
          : i \in {j \in en : d.decls[j].tags[1].k = "value"}}
  \cup {E(41, p, AddTag(d, p[1], MkRange("ZZ_R", d.decls[p[1]].tags[p[2]].hi, IncLimbs(d.decls[p[1]].tags[p[2]].hi))))
          : p \in TSites(d, LAMBDA e, t : e.tags[t].k = "range" /\ LtL(e.tags[t].hi, MaxL(e.width)))}
  \cup {E(43, p, AddTag(d, p[1], MkTag("ZZ_NEW", FreshInRange(d.decls[p[1]], p[2]))))
          : p \in TSites(d, LAMBDA e, t : e.tags[t].k = "range" /\ HasFreshInRange(e, t))}
  \cup {E(44, <<i>>, AddTag(d, i, MkOther("ZZ_O2"))) : i \in {j \in en : IsOpen(d.decls[j])}}
  (* size / count / element-size fields: duplicated, designating nothing, designating a non-array *)
  \cup {E(IF Fld(d, p).kind = "size" THEN 23 ELSE IF Fld(d, p).kind = "count" THEN 26 ELSE 29, p, InsField(d, p[1], p[2], Fld(d, p)))
          : p \in FSites(d, ps, LAMBDA x, j : x.fields[j].kind \in {"size", "count", "elementsize"})}
  \cup {E(24, <<i>>, InsField(d, i, 1, MkSize("size", "zz_nowhere", 8))) : i \in ps}
  \cup {E(27, <<i>>, InsField(d, i, 1, MkSize("count", "zz_nowhere", 8))) : i \in ps}
  \cup {E(30, <<i>>, InsField(d, i, 1, MkSize("elementsize", "zz_nowhere", 8))) : i \in ps}
  \cup UNION {{E(25, p, InsField(d, p[1], 1, MkSize("size", Fld(d, p).id, 8))),
               E(28, p, InsField(d, p[1], 1, MkSize("count", Fld(d, p).id, 8))),
               E(31, p, InsField(d, p[1], 1, MkSize("elementsize", Fld(d, p).id, 8)))}
               : p \in FSites(d, ps, LAMBDA x, j : x.fields[j].kind \in {"scalar", "typedef"} /\ x.fields[j].id # "")}
  (* fixed fields *)
  \cup {E(32, p, SetField(d, p[1], p[2], [Fld(d, p) EXCEPT !.v = Pow2Limbs(Fld(d, p).width)]))
          : p \in FSites(d, PSG(d), LAMBDA x, j : x.fields[j].kind = "fixed" /\ x.fields[j].width < 64)}
  \cup {E(32, <<i, w>>, AddField(d, i, [F0 EXCEPT !.kind = "fixed", !.width = w, !.v = Pow2Limbs(w)]))
          : i \in FirstPS(d), w \in {1, 2, 7, 8, 9, 15, 16, 17, 31, 32, 33, 63}}
  \cup {E(33, <<i>>, AddField(d, i, MkFixedEnum("A", "Zz_Nowhere"))) : i \in ps}
  \cup {E(34, <<i>>, AddField(d, i, MkFixedEnum("ZZ_NOTAG", Pick(IdsOfKind(d, {"enum"})))))
          : i \in {j \in ps : IdsOfKind(d, {"enum"}) # {}}}
  \cup {E(35, <<i>>, AddField(d, i, MkFixedEnum("A", Pick(IdsOfKind(d, {"struct", "packet", "custom"})))))
          : i \in {j \in ps : IdsOfKind(d, {"struct", "packet", "custom"}) # {}}}
  (* payload / array / padding *)
  \cup {E(36, <<i>>, AddField(d, i, [F0 EXCEPT !.kind = "payload"])) : i \in {j \in ps : HasPayload(d.decls[j])}}
  \cup {E(36, <<i, "body">>, AddField(d, i, [F0 EXCEPT !.kind = "body"])) : i \in {j \in ps : HasPayload(d.decls[j])}}
  \cup {E(37, <<i>>, [d EXCEPT !.decls[i].fields = SelectSeq(@, LAMBDA f : ~IsPayloadField(f) /\ ~(f.kind = "size" /\ f.target \in {"_payload_", "_body_"}))])
          : i \in {j \in ps : HasPayload(d.decls[j]) /\ \E c \in Children1(d, j) : d.decls[c].fields # <<>>}}
  \cup UNION {{E(38, p \o <<"size">>, InsField(d, p[1], 1, MkSize("size", Fld(d, p).id, 8))),
               E(38, p \o <<"count">>, InsField(d, p[1], 1, MkSize("count", Fld(d, p).id, 8)))}
               : p \in FSites(d, ps, LAMBDA x, j : x.fields[j].kind = "array" /\ x.fields[j].count >= 0)}
  \cup {E(39, p, InsField(d, p[1], p[2] + 1, [F0 EXCEPT !.kind = "padding", !.size = 8]))
          : p \in FSites(d, ps, LAMBDA x, j : x.fields[j].kind \in {"scalar", "typedef", "payload", "body", "padding", "reserved",
                                                                       "fixed", "fixedenum", "size", "count"}
                                               /\ (j = Len(x.fields) \/ x.fields[j + 1].kind # "padding"))}
  \cup {E(39, <<i, "first">>, InsField(d, i, 1, [F0 EXCEPT !.kind = "padding", !.size = 8])) : i \in ps}
  (* optional fields *)
  \cup {E(46, <<i>>, AddField(d, i, [MkScalar("zz_o", 8) EXCEPT !.cond = "zz_nowhere", !.condv = 1])) : i \in ps}
  \cup {E(47, p, AddField(d, p[1], [MkScalar("zz_o", 8) EXCEPT !.cond = Fld(d, p).id, !.condv = 1]))
          : p \in FSites(d, ps, LAMBDA x, j : x.fields[j].id # "" /\ x.fields[j].cond = ""
                                               /\ ~(x.fields[j].kind = "scalar" /\ x.fields[j].width = 1))}
  \cup UNION {{E(48, p \o <<v>>, SetField(d, p[1], p[2], [Fld(d, p) EXCEPT !.condv = v])) : v \in {2, 255}}
               : p \in FSites(d, ps, LAMBDA x, j : x.fields[j].cond # "")}
  \cup UNION {{E(49, p, AddField(d, p[1], [MkScalar("zz_o", 8) EXCEPT !.cond = Fld(d, p).id, !.condv = 1])),
               E(45, p, AddField(d, p[1], [MkArray("zz_oa", 8, 2) EXCEPT !.cond = Fld(d, p).cond, !.condv = 1]))}
               : p \in FSites(d, ps, LAMBDA x, j : x.fields[j].cond # "" /\ x.fields[j].id # "")}
  (* constraints of a child on its ancestors' fields *)
  \cup {E(15, <<c>>, AddCons(d, c, MkCons("zz_nowhere", <<1>>, ""))) : c \in Kids(d)}
  \cup {E(16, p, AddCons(d, p[1], MkCons(CF(d, p).id, <<1>>, ""))) : p \in CSites(d, LAMBDA c, f : f.kind = "array")}
  \cup {E(17, p, AddCons(d, p[1], MkCons(CF(d, p).id, <<>>, "ZZ_TAG")))
          : p \in CSites(d, LAMBDA c, f : f.kind = "scalar" /\ Free(d, c, f))}
  \cup {E(18, p, AddCons(d, p[1], MkCons(CF(d, p).id, Pow2Limbs(CF(d, p).width), "")))
          : p \in CSites(d, LAMBDA c, f : f.kind = "scalar" /\ f.width < 64 /\ Free(d, c, f))}
  \cup UNION {{E(19, p, AddCons(d, p[1], MkCons(CF(d, p).id, <<1>>, ""))),
               E(20, p, AddCons(d, p[1], MkCons(CF(d, p).id, <<>>, "ZZ_NOTAG")))}
               : p \in CSites(d, LAMBDA c, f : f.kind = "typedef" /\ KindOf(d, f.type) = "enum" /\ Free(d, c, f))}
  \cup {E(42, p, AddCons(d, p[1], MkCons(CF(d, p).id, <<>>, RangesOf(DeclOf(d, CF(d, p).type))[1].id)))
          : p \in CSites(d, LAMBDA c, f : f.kind = "typedef" /\ KindOf(d, f.type) = "enum" /\ Free(d, c, f)
                                           /\ RangesOf(DeclOf(d, f.type)) # <<>>)}
  \cup {E(21, p, AddCons(d, p[1], MkCons(CF(d, p).id, <<1>>, "")))
          : p \in CSites(d, LAMBDA c, f : f.kind = "typedef" /\ KindOf(d, f.type) \in {"struct", "custom"} /\ f.cond = "")}
  (* ... the same with a tag instead of an integer *)
  \cup {E(21, p \o <<"tag">>, AddCons(d, p[1], MkCons(CF(d, p).id, <<>>, "ZZ_TAG")))
          : p \in CSites(d, LAMBDA c, f : f.kind = "typedef" /\ KindOf(d, f.type) \in {"struct", "custom"} /\ f.cond = "")}
  \cup {E(22, <<c>>, AddCons(d, c, d.decls[c].cons[1])) : c \in {k \in Kids(d) : d.decls[k].cons # <<>>}}
  (* ... or repeats a constraint made by *any* ancestor, however far up *)
  \cup {E(22, p, AddCons(d, p[1], AncestorCons(d, d.decls[p[1]].parent, 8)[p[2]]))
          : p \in {q \in Kids(d) \X (1..12) : q[2] <= Len(AncestorCons(d, d.decls[q[1]].parent, 8))}}
  (* alignment and sizes *)
  \cup {E(51, p, InsField(d, p[1], p[2], MkScalar("zz_bit", 1)))
          : p \in FSites(d, ps, LAMBDA x, j : x.fields[j].kind \in {"array", "payload", "body"})}
  \cup {E(52, <<i, w>>, AddField(d, i, MkArray("zz_a", w, 2))) : i \in FirstPS(d), w \in {4, 12, 20}}
  (* optional fields are no bit-fields: one that does not start on an octet boundary, one whose size is not whole octets *)
  \cup {E(51, p \o <<"optional">>, InsField(d, p[1], p[2], MkScalar("zz_bit", 1)))
          : p \in FSites(d, ps, LAMBDA x, j : x.fields[j].cond # "")}
  \cup {E(52, <<i, w, "optional">>,
           AddField(AddField(AddField(d, i, MkScalar("zz_c", 1)), i, [F0 EXCEPT !.kind = "reserved", !.width = 7]), i,
                    [MkScalar("zz_o", w) EXCEPT !.cond = "zz_c", !.condv = 1]))
          : i \in ps, w \in {4, 12}}
  \cup {E(53, <<i, w>>, AddField(d, i, MkScalar("zz_s", w))) : i \in ps, w \in {1, 7}}

(* the legal side of each numeric boundary: these must stay accepted *)
OkEdits(d) ==
  LET ps == PS(d)  en == Enums(d) IN
  {E(0, <<"tagmax", i>>, AddTag(d, i, MkTag("ZZ_NEW", MaxL(d.decls[i].width))))
     : i \in {j \in en : ~InTagValues(d.decls[j], MaxL(d.decls[j].width))
                          /\ ~V43(AddTag(d, j, MkTag("ZZ_NEW", MaxL(d.decls[j].width))))}}
  \cup {E(0, <<"fixedmax", i, w>>, AddField(d, i, [F0 EXCEPT !.kind = "fixed", !.width = w, !.v = MaxL(w)]))
          : i \in FirstPS(d), w \in {8, 16, 24, 32, 40, 48, 56, 64}}
  \cup {E(0, <<"consmax">> \o p, AddCons(d, p[1], MkCons(CF(d, p).id, MaxL(CF(d, p).width), "")))
          : p \in CSites(d, LAMBDA c, f : f.kind = "scalar" /\ Free(d, c, f) /\ Children1(d, c) = {})}

=============================================================================
