----------------------------- MODULE MC_Analyzer -----------------------------
(***************************************************************************)
(* The static-semantics machine (C08, C09): for every base description     *)
(* (job) TLC enumerates the rule-violating edits of PdlGen and the         *)
(* acceptance-preserving transformations, evaluates the pass pipeline of   *)
(* PdlAnalyzer on each result and prints the edited description together   *)
(* with what the specification says about it.                              *)
(* Model-level theorems (invariants):                                      *)
(*   BaseWellFormed  - every base description of the kit is accepted;      *)
(*   EditViolates    - after Edit(r, site) the rule predicate of r holds;  *)
(*   OkStaysOk       - boundary-legal edits stay accepted;                 *)
(*   PermInvariant   - the verdict does not depend on declaration order.   *)
(***************************************************************************)
EXTENDS PdlGen, Json, IOUtils

Descs == ndJsonDeserialize(IOEnv.DESCS)

VARIABLES job, st
avars == <<job, st>>

None == [k |-> "none", rule |-> 0, site |-> <<>>, d |-> [endian |-> "little", decls |-> <<>>]]

Base(j) == Descs[j]

(* declaration orders: rotations and the reversal (all permutations for <= 3 declarations) *)
Rot(s, n) == [k \in 1..Len(s) |-> s[((k + n - 1) % Len(s)) + 1]]
Orders(d) ==
  LET n == Len(d.decls) IN
  IF n <= 1 THEN {}
  ELSE {[d EXCEPT !.decls = Rot(d.decls, r)] : r \in 1..(n - 1)}
       \cup {[d EXCEPT !.decls = Rev(d.decls)]}
       \cup (IF n = 3 THEN {[d EXCEPT !.decls = <<d.decls[1], d.decls[3], d.decls[2]>>],
                            [d EXCEPT !.decls = <<d.decls[2], d.decls[1], d.decls[3]>>]} ELSE {})

(* wrap a run of fields j..k of declaration i into a fresh group (C09: a group behaves as inlined) *)
Wrappable(f) == f.kind \in {"scalar", "reserved", "fixed", "fixedenum", "typedef", "array", "size", "count"} 
WrapOk(d, i, j, k) ==
  LET x == d.decls[i] IN
  /\ j <= k /\ k <= Len(x.fields) /\ k - j <= 2
  /\ \A m \in j..k : Wrappable(x.fields[m]) /\ x.fields[m].cond = "" /\ ~IsFlag(x, x.fields[m])
  /\ (k = Len(x.fields) \/ x.fields[k + 1].kind # "padding")

GroupWraps(d) ==
  {LET i == p[1]  j == p[2]  k == p[3]
       x == d.decls[i]
       g == [kind |-> "group", id |-> "Zz_G", width |-> 0, tags |-> <<>>, parent |-> "", cons |-> <<>>,
             fields |-> SubSeq(x.fields, j, k), fn |-> ""]
       gf == [F0 EXCEPT !.kind = "group", !.type = "Zz_G"]
   IN [d EXCEPT !.decls = Append([@ EXCEPT ![i].fields = SubSeq(x.fields, 1, j - 1) \o <<gf>> \o SubSeq(x.fields, k + 1, Len(x.fields))], g)]
     : p \in {q \in PS(d) \X (1..16) \X (1..16) : WrapOk(d, q[1], q[2], q[3])}}

StimFor(j) ==
  LET d == Base(j) IN
  {[k |-> "edit", rule |-> e.rule, site |-> e.site, d |-> e.d] : e \in Edits(d)}
  \cup {[k |-> "ok", rule |-> 0, site |-> e.site, d |-> e.d] : e \in OkEdits(d)}
  \cup {[k |-> "perm", rule |-> 0, site |-> <<>>, d |-> p] : p \in Orders(d)}
  \cup {[k |-> "group", rule |-> 0, site |-> <<>>, d |-> g] : g \in GroupWraps(d)}
  \cup {[k |-> "base", rule |-> 0, site |-> <<>>, d |-> d]}

Init == job \in 1..Len(Descs) /\ st = None
Next == st.k = "none" /\ st' \in StimFor(job) /\ UNCHANGED job
Spec == Init /\ [][Next]_avars

AllCodesUpTo(d, p) == UNION {PassCodes(d, q) : q \in 0..p}

Result ==
  LET v == Verdict(st.d) IN
  [job |-> job, k |-> st.k, rule |-> st.rule, site |-> st.site, d |-> st.d,
   accepted |-> v.accepted, pass |-> v.pass, codes |-> v.codes,
   analyzed |-> IF v.accepted THEN InlineGroups(st.d) ELSE [endian |-> "", decls |-> <<>>]]

Emit == st.k = "none" \/ PrintT(<<"AN", ToJson(Result)>>)

BaseWellFormed == st.k = "base" => Verdict(st.d).accepted

(* the rule the edit was built to violate is violated (its pass may be masked by an earlier one) *)
RulePass(r) ==
  CASE r = 1 -> 0 [] r \in 2..8 -> 1 [] r = 11 -> 2 [] r \in {12, 13, 14, 40, 41, 43, 44} -> 3
    [] r \in 23..31 -> 4 [] r \in 32..35 -> 5 [] r \in {36, 37} -> 6 [] r = 38 -> 7 [] r = 39 -> 8
    [] r \in 45..49 -> 9 [] r \in {15, 16, 17, 18, 19, 20, 21, 22, 42} -> 12 [] r = 51 -> 13 [] r \in {52, 53} -> 14
    [] OTHER -> 99

(* a duplicate identifier that only the whole scope shows (through a group, through inheritance) *)
RulePassOf(s) == IF s.rule = 11 /\ s.site # <<>> /\ s.site[Len(s.site)] = ToString("scope") THEN 11 ELSE RulePass(s.rule)

EditViolates ==
  st.k = "edit" =>
    LET v == Verdict(st.d) IN
    /\ ~v.accepted
    /\ (v.pass = RulePassOf(st) => st.rule \in v.codes)
    /\ v.pass <= RulePassOf(st)

OkStaysOk == st.k = "ok" => Verdict(st.d).accepted

(* C09 at the design level: declaration order and grouping do not change the verdict, and the  *)
(* analyzed (group-inlined) declarations of a wrapped description are those of the original     *)
PermInvariant == st.k = "perm" => Verdict(st.d).accepted
GroupInvariant ==
  st.k = "group" =>
    /\ Verdict(st.d).accepted
    /\ LET a == InlineGroups(st.d)  b == InlineGroups(Base(job))
       IN {a.decls[i] : i \in 1..Len(a.decls)} = {b.decls[i] : i \in 1..Len(b.decls)}

=============================================================================
