------------------------------ MODULE MC_Syntax ------------------------------
(***************************************************************************)
(* The printer-with-positions machine (see PdlSyntax).  One behaviour =    *)
(* one concrete rendering of one description; at its end the text and the  *)
(* predicted ranges are printed as a JSON line.  Explored with             *)
(* `tlc -simulate` (every choice drawn at random) and exhaustively for     *)
(* short streams under the constraint MaxChoices.                          *)
(***************************************************************************)
EXTENDS PdlSyntax, Json, IOUtils, SequencesExt

Descs == ndJsonDeserialize(IOEnv.DESCS)
AllowBigX == IOEnv.ALLOW0X = "1"

VARIABLES job, i, text, pos, ls, prevk, pend, closing, starts, locs, comments, done, nstyle, miss
svars == <<job, i, text, pos, ls, prevk, pend, closing, starts, locs, comments, done, nstyle, miss>>

(* pos = [off, line, col]; ls = byte offset where the current line starts *)
P0 == [off |-> 0, line |-> 0, col |-> 0]
Adv(p, n, nl, tail) == [off |-> p.off + n, line |-> p.line + nl, col |-> IF nl > 0 THEN tail ELSE p.col + n]

It(j) == Items(Descs[j])

Init ==
  /\ job \in 1..Len(Descs) /\ i = 1 /\ text = "" /\ pos = P0 /\ ls = 0 /\ prevk = "p"
  /\ pend = {} /\ closing = {} /\ starts = [x \in {} |-> P0] /\ locs = <<>> /\ comments = <<>>
  /\ done = FALSE /\ nstyle = 0 /\ miss = ""

Cur == It(job)[i]

DoOpen ==
  /\ ~done /\ i <= Len(It(job)) /\ Cur.t = "open"
  /\ pend' = pend \cup {Cur.path} /\ i' = i + 1
  /\ UNCHANGED <<job, text, pos, ls, prevk, closing, starts, locs, comments, done, nstyle, miss>>

(* a node closes at the end of the last token printed; how far its range may extend is *)
(* known when the next token (or the end of the file) is reached                      *)
DoClose ==
  /\ ~done /\ i <= Len(It(job)) /\ Cur.t = "close"
  /\ closing' = closing \cup {[path |-> Cur.path, start |-> starts[Cur.path], endmin |-> pos]}
  /\ i' = i + 1
  /\ UNCHANGED <<job, text, pos, ls, prevk, pend, starts, locs, comments, done, nstyle, miss>>

CommentOf(sep, p) ==
  LET cs == Adv(p, sep.coff, 0, 0)
  IN [text |-> sep.cm, start |-> cs, end |-> Adv(cs, sep.cn, sep.cnl, sep.ctail)]

Emit(k, s, sep) ==
  LET p1 == Adv(pos, sep.n, sep.nl, sep.tail)
      p2 == Adv(p1, Len(s), 0, 0)
  IN /\ text' = text \o sep.s \o s
     /\ pos' = p2
     /\ ls' = IF sep.nl > 0 THEN p1.off - sep.tail ELSE ls
     /\ prevk' = k
     /\ starts' = [x \in pend |-> p1] @@ starts
     /\ pend' = {}
     /\ locs' = locs \o SetToSeq({[path |-> c.path, start |-> c.start, endmin |-> c.endmin, endmax |-> p1] : c \in closing})
     /\ closing' = {}
     /\ comments' = IF sep.cm = "" THEN comments ELSE Append(comments, CommentOf(sep, pos))
     /\ nstyle' = nstyle + (IF sep.s = " " THEN 0 ELSE 1)

IntStyles == IF AllowBigX THEN {"dec", "hex", "HEX", "0X"} ELSE {"dec", "hex", "HEX"}

DoTok ==
  /\ ~done /\ i <= Len(It(job)) /\ Cur.t = "tok"
  /\ \E sep \in Seps :
       /\ SepAllowed(sep, prevk, Cur.k)
       /\ IF Cur.k = "int"
          THEN \E st \in IntStyles : Emit("int", IntText(Cur.l, st), sep)
          ELSE Emit(Cur.k, Cur.s, sep)
  /\ i' = i + 1
  /\ UNCHANGED <<job, done, miss>>

(* ---- near-miss renderings: exactly one defect, the text must be rejected ---- *)
NearMissOn == IOEnv.NEARMISS = "1"

(* a declaration keyword glued to what follows, or followed by a comment without a blank *)
DoGlue ==
  /\ NearMissOn /\ miss = "" /\ ~done /\ i <= Len(It(job)) /\ Cur.t = "tok" /\ prevk = "kw" /\ Cur.k = "id"
  /\ \E sep \in {x \in Seps : ~x.blank} : Emit(Cur.k, Cur.s, sep)
  /\ miss' = "glued_keyword" /\ i' = i + 1
  /\ UNCHANGED <<job, done>>

(* a mandatory punctuation token left out *)
DoDrop ==
  /\ NearMissOn /\ miss = "" /\ ~done /\ i <= Len(It(job)) /\ Cur.t = "tok" /\ Cur.k = "p"
  /\ Cur.s \in {":", "{", "}", "(", ")", "=", "[", "]"}
  /\ miss' = "dropped_" \o Cur.s /\ i' = i + 1
  /\ UNCHANGED <<job, text, pos, ls, prevk, pend, closing, starts, locs, comments, done, nstyle>>

(* a hexadecimal literal with a digit that is none *)
DoBadDigit ==
  /\ NearMissOn /\ miss = "" /\ ~done /\ i <= Len(It(job)) /\ Cur.t = "tok" /\ Cur.k = "int"
  /\ \E sep \in {x \in Seps : x.blank} : Emit("int", "0x" \o HexStr(Cur.l, HEX) \o "g", sep)
  /\ miss' = "bad_digit" /\ i' = i + 1
  /\ UNCHANGED <<job, done>>

(* the file ends inside a block comment or a string *)
DoUnterminated ==
  /\ NearMissOn /\ miss = "" /\ ~done /\ i = Len(It(job)) + 1
  /\ \E tail \in {" /* never closed", " \"never closed", " /* a */ /*/"} :
        /\ text' = text \o tail /\ pos' = Adv(pos, Len(tail), 0, 0)
  /\ miss' = "unterminated" /\ done' = TRUE
  /\ UNCHANGED <<job, i, ls, prevk, pend, closing, starts, locs, comments, nstyle>>

DoOptComma ==
  /\ ~done /\ i <= Len(It(job)) /\ Cur.t = "optcomma"
  /\ \/ /\ \E sep \in Seps : SepAllowed(sep, prevk, "p") /\ Emit("p", ",", sep)
     \/ UNCHANGED <<text, pos, ls, prevk, pend, closing, starts, locs, comments, nstyle>>
  /\ i' = i + 1
  /\ UNCHANGED <<job, done, miss>>

(* end of file: a last separator (a blank one if the text ends with a declaration keyword) *)
DoEnd ==
  /\ ~done /\ i = Len(It(job)) + 1
  /\ \E sep \in Seps :
       /\ (prevk = "kw" => sep.blank)
       /\ LET p1 == Adv(pos, sep.n, sep.nl, sep.tail) IN
          /\ text' = text \o sep.s
          /\ pos' = p1
          /\ ls' = IF sep.nl > 0 THEN p1.off - sep.tail ELSE ls
          /\ locs' = locs \o SetToSeq({[path |-> c.path, start |-> c.start, endmin |-> c.endmin, endmax |-> p1] : c \in closing})
          /\ comments' = IF sep.cm = "" THEN comments ELSE Append(comments, CommentOf(sep, pos))
  /\ closing' = {} /\ done' = TRUE
  /\ UNCHANGED <<job, i, prevk, pend, starts, nstyle, miss>>

Next == DoOpen \/ DoClose \/ DoTok \/ DoOptComma \/ DoEnd \/ DoGlue \/ DoDrop \/ DoBadDigit \/ DoUnterminated
Spec == Init /\ [][Next]_svars

(* exhaustive exploration only: at most IOEnv.MAXSTYLE non-default choices *)
MaxChoices == nstyle <= 2

(* --- invariants of the printer (M) --- *)
ColumnInv == miss # "" \/ (pos.col = pos.off - ls /\ pos.off = Len(text))

RangeInv ==
  \A k \in 1..Len(locs) :
     /\ locs[k].start.off <= locs[k].endmin.off /\ locs[k].endmin.off <= locs[k].endmax.off
     /\ locs[k].endmax.off <= Len(text)
     /\ locs[k].start.line <= locs[k].endmin.line

(* nesting: a node's range contains the ranges of the nodes below it *)
NestInv ==
  \A a \in 1..Len(locs), b \in 1..Len(locs) :
     (Len(locs[a].path) < Len(locs[b].path) /\ SubSeq(locs[b].path, 1, Len(locs[a].path)) = locs[a].path)
       => (locs[a].start.off <= locs[b].start.off /\ locs[b].endmin.off <= locs[a].endmin.off)

EmitSrc ==
  done => PrintT(<<"SRC", ToJson([job |-> job, text |-> text, locs |-> locs, comments |-> comments, len |-> pos.off,
                                  miss |-> miss])>>)

=============================================================================
