---------------------------- MODULE Trace_Compile ----------------------------
(***************************************************************************)
(* Trace validation of recorded compiler runs against PdlCompile.          *)
(* The log is a sequence of runs (IOEnv.TRACE, one JSON object per run):   *)
(*   [rid, events: << [ev, b, outcome] >>]                                 *)
(* ev \in {"parse","analyze","generate","compile"}; outcome "ok" / "diag". *)
(* Runs are independent (the pipeline keeps no state between runs), so     *)
(* each run is validated as its own behaviour: an initial state per run,   *)
(* one step per event, and "ACCEPT rid" is printed when the whole run has  *)
(* been consumed.  A run with an event that PdlCompile has no action for   *)
(* (panic, abort, timeout, target compile error, or an event out of order) *)
(* never prints ACCEPT.                                                    *)
(***************************************************************************)
EXTENDS PdlCompile, Json, IOUtils

Runs == ndJsonDeserialize(IOEnv.TRACE)

VARIABLES r, l
tvars == <<stage, gen, compiled, memo, r, l>>

TInit == CInit /\ r \in 1..Len(Runs) /\ l = 1

Ev == Runs[r].events[l]
IsEvent(name) == l <= Len(Runs[r].events) /\ Ev.ev = name /\ l' = l + 1 /\ UNCHANGED r

TParse == IsEvent("parse") /\ Ev.outcome \in {"ok", "diag"} /\ Parse(Ev.outcome = "ok")
TAnalyze == IsEvent("analyze") /\ Ev.outcome \in {"ok", "diag"} /\ Analyze(Ev.outcome = "ok")
TGenerate == IsEvent("generate") /\ Ev.outcome = "ok" /\ Ev.b \in Backends /\ Generate(Ev.b)
TCompile == IsEvent("compile") /\ Ev.outcome = "ok" /\ Ev.b \in Backends /\ TargetCompile(Ev.b)

TNext == TParse \/ TAnalyze \/ TGenerate \/ TCompile
TSpec == TInit /\ [][TNext]_tvars

Accepted == l = Len(Runs[r].events) + 1
Report == ~Accepted \/ PrintT(<<"ACCEPT", ToJson([rid |-> Runs[r].rid])>>)

=============================================================================
