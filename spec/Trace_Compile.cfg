SPECIFICATION TSpec
INVARIANT Report
INVARIANT TypeOK
INVARIANT NoIllFormedReachesBackend
CHECK_DEADLOCK FALSE
