------------------------------ MODULE MC_Build ------------------------------
(***************************************************************************)
(* The description builder run by TLC (see PdlBuild).  At the end of a     *)
(* behaviour the description is printed as one JSON line with what the     *)
(* specification says about it: the analyzer's verdict (codes of the first *)
(* failing pass) and, when accepted, the supported-construct classes.      *)
(***************************************************************************)
EXTENDS PdlBuild, PdlDev, Json, IOUtils

Final == [endian |-> "little", decls |-> ds]

Result ==
  LET v == Verdict(Final)
      a == IF v.accepted THEN InlineGroups(Final) ELSE [endian |-> "little", decls |-> <<>>]
  IN [d |-> Final, accepted |-> v.accepted, pass |-> v.pass, codes |-> v.codes, analyzed |-> a,
      rust |-> v.accepted /\ RustSupported(a), py |-> v.accepted /\ PySupported(a),
      cxx |-> v.accepted /\ CxxSupported(a), java |-> v.accepted /\ JavaSupported(a),
      pyclean |-> v.accepted /\ PyClean(a), cxxclean |-> v.accepted /\ CxxClean(a), javaclean |-> v.accepted /\ JavaClean(a)]

EmitDesc == done => PrintT(<<"DESC", ToJson(Result)>>)

(* exhaustive configuration: bound the behaviours *)
Small == Len(ds) <= 3
=============================================================================
