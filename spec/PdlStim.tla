------------------------------ MODULE PdlStim ------------------------------
(***************************************************************************)
(* Stimuli derived from the specification's knowledge of a description's   *)
(* layout: boundary values of every type (DESIGN.md 7.2) and byte strings  *)
(* built from reference encodings (7.3): prefixes, extensions, semantic    *)
(* single-fault mutants (a size / count / element-size / fixed / reserved  *)
(* / flag field forced to a chosen value through the encoder's override    *)
(* map, an enum field set to an undeclared value), bit flips, and all      *)
(* short strings.  Everything here only *chooses inputs*; what must happen *)
(* on them is decided by PdlCodec.                                         *)
(***************************************************************************)
EXTENDS PdlCodec

Idx(n) == [j \in 1..n |-> j]

(* value-carrying fields of a type, ancestors first, child fields in place *)
(* of the parent's payload (reference.md "Packet")                         *)
RECURSIVE LevelFields(_, _)
LevelFields(chain, k) ==
  LET decl == chain[k]
      n == Len(decl.fields)
      pi == IF HasPayload(decl) THEN PayloadIndex(decl) ELSE n + 1
      all == [j \in 1..n |-> [decl |-> decl, i |-> j]]
      pre == SubSeq(all, 1, pi - 1)
      post == SubSeq(all, pi + 1, n)
      mid == IF k < Len(chain) THEN LevelFields(chain, k + 1) ELSE <<>>
  IN pre \o mid \o post

ValueFields(d, id) ==
  LET consIds == {AllCons(d, id)[i].id : i \in 1..Len(AllCons(d, id))}
  IN SelectSeq(LevelFields(Chain(d, id), 1),
               LAMBDA x : IsDataField(x.decl, x.decl.fields[x.i])
                          /\ x.decl.fields[x.i].id \notin consIds)

LeafHasPayload(d, id) == HasPayload(DeclOf(d, id))

(* --------------------------- default values ---------------------------- *)
RECURSIVE DefaultValF(_, _, _), DefaultOfType(_, _, _)

DefaultOfType(d, typeId, fuel) ==
  LET t == DeclOf(d, typeId) IN
  CASE t.kind = "enum" -> U(StripZeros(DefaultLimbs(t)))
    [] t.kind = "struct" -> DefaultValF(d, typeId, fuel)
    [] OTHER -> U(<<>>)

DefaultElem(d, f, fuel) ==
  IF f.type = "" THEN U(<<>>) ELSE DefaultOfType(d, f.type, fuel)

DefaultOfField(d, f, fuel) ==
  IF IsOptional(f) THEN NoneV
  ELSE IF f.kind = "scalar" THEN U(<<>>)
  ELSE IF f.kind = "typedef" THEN DefaultOfType(d, f.type, fuel)
  ELSE IF f.kind = "array" THEN
       (IF f.count >= 0 THEN A([k \in 1..f.count |-> DefaultElem(d, f, fuel)]) ELSE A(<<>>))
  ELSE NoneV

DefaultValF(d, id, fuel) ==
  IF fuel = 0 THEN S(<<>>, <<>>)
  ELSE
  LET vf == ValueFields(d, id)
      names == [k \in 1..Len(vf) |-> vf[k].decl.fields[vf[k].i].id]
      items == [k \in 1..Len(vf) |-> DefaultOfField(d, vf[k].decl.fields[vf[k].i], fuel - 1)]
  IN IF LeafHasPayload(d, id)
     THEN S(Append(names, "payload"), Append(items, B(<<>>)))
     ELSE S(names, items)

DefaultVal(d, id) == DefaultValF(d, id, 5)

(* --------------------------- boundary values --------------------------- *)
Pattern(w) == [k \in 1..w |-> IF k % 3 = 1 \/ k % 7 = 0 THEN 1 ELSE 0]

ScalarPoints(w) ==
  {LimbsOfBits(b) : b \in {Zeros(w), OneHot(w, 1), Ones(w), DecBits(Ones(w)), OneHot(w, w),
                           DecBits(OneHot(w, w)), Pattern(w)}}

(* values that do not fit w bits but fit the next machine width *)
BackingWidth(w) == IF w <= 8 THEN 8 ELSE IF w <= 16 THEN 16 ELSE IF w <= 32 THEN 32 ELSE 64
ScalarOutOfRange(w) ==
  IF BackingWidth(w) = w THEN {}
  ELSE {LimbsOfBits(OneHot(w + 1, w + 1)), LimbsOfBits(Ones(BackingWidth(w))),
        LimbsOfBits(OneHot(BackingWidth(w), BackingWidth(w)))}

EnumPoints(e) ==
  {LimbsOfBits(b) : b \in {x \in EnumBoundaryBits(e) : EnumValidBits(e, x)}}
EnumBadPoints(e) ==
  {LimbsOfBits(b) : b \in {x \in EnumBoundaryBits(e) : ~EnumValidBits(e, x)}}

RECURSIVE AltsOfType(_, _, _), ValSetF(_, _, _), MaxOfType(_, _, _)

(* a "large" value of a type: all ones / last tag / recursively *)
MaxOfType(d, typeId, fuel) ==
  LET t == DeclOf(d, typeId) IN
  CASE t.kind = "enum" ->
         LET pts == EnumPoints(t)
         IN U(IF LimbsOfBits(Ones(t.width)) \in pts THEN LimbsOfBits(Ones(t.width))
              ELSE CHOOSE p \in pts : \A q \in pts : Len(q) <= Len(p))
    [] t.kind = "struct" ->
         (IF fuel = 0 THEN DefaultValF(d, typeId, 1)
          ELSE LET base == DefaultValF(d, typeId, fuel)
                   vf == ValueFields(d, typeId)
               IN [base EXCEPT !.c = [k \in 1..Len(base.c) |->
                     IF k > Len(vf) THEN B(<<255, 1>>)
                     ELSE LET f == vf[k].decl.fields[vf[k].i] IN
                          IF IsOptional(f) THEN base.c[k]
                          ELSE IF f.kind = "scalar" THEN U(LimbsOfBits(Ones(f.width)))
                          ELSE IF f.kind = "typedef" THEN MaxOfType(d, f.type, fuel - 1)
                          ELSE base.c[k]]])
    [] t.kind \in {"custom", "checksum"} /\ t.width > 0 -> U(LimbsOfBits(Ones(t.width)))
    [] OTHER -> U(<<>>)

AltsOfType(d, typeId, fuel) ==
  LET t == DeclOf(d, typeId) IN
  CASE t.kind = "enum" -> {U(p) : p \in EnumPoints(t)}
    [] t.kind = "struct" -> IF fuel = 0 THEN {DefaultValF(d, typeId, 1)} ELSE ValSetF(d, typeId, fuel - 1)
    [] t.kind \in {"custom", "checksum"} /\ t.width > 0 -> {U(p) : p \in ScalarPoints(t.width)}
    [] OTHER -> {U(<<>>)}

ElemAlts(d, f, fuel) ==
  IF f.type = "" THEN {U(p) : p \in ScalarPoints(f.width)} ELSE AltsOfType(d, f.type, fuel)

ElemMax(d, f, fuel) ==
  IF f.type = "" THEN U(LimbsOfBits(Ones(f.width))) ELSE MaxOfType(d, f.type, fuel)

(* array lengths worth trying: a few small ones, and those around what the *)
(* count field, the size field or the padding can express                  *)
ArrayLengths(d, decl, i) ==
  LET f == decl.fields[i]
      es == ElemStaticOctets(d, f)
      cw == IF HasCountField(decl, f.id) THEN CountFieldOf(decl, f.id).width ELSE 99
      sw == IF HasSizeField(decl, f.id) THEN SizeFieldOf(decl, f.id).width ELSE 99
      pad == PaddingAfter(decl, i)
  IN {0, 1, 2, 3}
     \cup (IF cw <= 8 THEN {2 ^ cw - 1, 2 ^ cw} ELSE {})
     \cup (IF sw <= 8 /\ es > 0 THEN {(2 ^ sw - 1) \div es, ((2 ^ sw - 1) \div es) + 1} ELSE {})
     \cup (IF pad >= 0 /\ es > 0 /\ pad <= 64 THEN {pad \div es, (pad \div es) + 1} ELSE {})

ArrayAlts(d, decl, i, fuel) ==
  LET f == decl.fields[i]
      dflt == DefaultElem(d, f, fuel)
      mx == ElemMax(d, f, fuel)
      alts == ElemAlts(d, f, fuel)
  IN IF f.count >= 0
     THEN {A([k \in 1..f.count |-> mx])}
          \cup {A([k \in 1..f.count |-> IF k = 1 THEN a ELSE dflt]) : a \in alts}
          \cup {A([k \in 1..f.count |-> IF k = f.count THEN mx ELSE dflt])}
     ELSE {A([k \in 1..n |-> dflt]) : n \in ArrayLengths(d, decl, i)}
          \cup {A(<<a>>) : a \in alts}
          \cup {A(<<dflt, mx>>), A(<<mx, dflt, mx>>)}
          \cup {A(<<a, mx>>) : a \in alts}

FieldAlts(d, decl, i, fuel) ==
  LET f == decl.fields[i]
      plain == IF f.kind = "scalar" THEN {U(p) : p \in ScalarPoints(f.width)}
               ELSE IF f.kind = "typedef" THEN AltsOfType(d, f.type, fuel)
               ELSE IF f.kind = "array" THEN ArrayAlts(d, decl, i, fuel)
               ELSE {}
  IN IF IsOptional(f) THEN plain \cup {NoneV} ELSE plain

(* payload lengths: small, and around what the size field can express *)
PayloadAlts(d, id) ==
  LET decl == DeclOf(d, id)
      f == decl.fields[PayloadIndex(decl)]
      name == TargetName(f)
      md == IF f.mod > 0 THEN f.mod ELSE 0
      sw == IF HasSizeField(decl, name) THEN SizeFieldOf(decl, name).width ELSE 99
      lens == {0, 1, 2, 5} \cup (IF sw <= 8 THEN {2 ^ sw - 1 - md, 2 ^ sw - md} ELSE {})
  IN {B([k \in 1..n |-> (k * 37 + 1) % 256]) : n \in {m \in lens : m >= 0}}

(* the all-large value of a type *)
BigValF(d, id, fuel) ==
  LET base == DefaultValF(d, id, 5)
      vf == ValueFields(d, id)
  IN [base EXCEPT !.c = [k \in 1..Len(base.c) |->
                IF k > Len(vf) THEN B(<<255, 0, 1>>)
                ELSE LET f == vf[k].decl.fields[vf[k].i] IN
                     IF IsOptional(f) THEN base.c[k]
                     ELSE IF f.kind = "scalar" THEN U(LimbsOfBits(Ones(f.width)))
                     ELSE IF f.kind = "typedef" THEN MaxOfType(d, f.type, fuel)
                     ELSE IF f.kind = "array" /\ f.count < 0
                     THEN A(<<ElemMax(d, f, fuel), DefaultElem(d, f, fuel)>>)
                     ELSE IF f.kind = "array" THEN A([j \in 1..f.count |-> ElemMax(d, f, fuel)])
                     ELSE base.c[k]]]

(* one factor at a time around the default value, plus the all-large value *)
ValSetF(d, id, fuel) ==
  LET base == DefaultValF(d, id, 5)
      vf == ValueFields(d, id)
      one == UNION {{[base EXCEPT !.c[k] = a] : a \in FieldAlts(d, vf[k].decl, vf[k].i, fuel)}
                       : k \in 1..Len(vf)}
      pl == IF LeafHasPayload(d, id)
            THEN {[base EXCEPT !.c[Len(base.c)] = a] : a \in PayloadAlts(d, id)} ELSE {}
  IN {base, BigValF(d, id, fuel)} \cup one \cup pl

BigVal(d, id) == BigValF(d, id, 2)

ValSet(d, id) == ValSetF(d, id, 2)

(* out-of-range values: one scalar (or one array element) too large for its *)
(* declared width but representable in the backing machine integer         *)
BadValSet(d, id) ==      \* records [v, label]; label names the construct made out of range
  LET base == DefaultVal(d, id)
      vf == ValueFields(d, id)
  IN UNION {LET f == vf[k].decl.fields[vf[k].i] IN
            IF f.kind = "scalar"
            THEN {[v |-> [base EXCEPT !.c[k] = U(p)],
                   label |-> <<"outofrange", IF IsOptional(f) THEN "optscalar" ELSE "scalar", f.width>>]
                    : p \in ScalarOutOfRange(f.width)}
            ELSE IF f.kind = "array" /\ f.type = ""
            THEN {[v |-> [base EXCEPT !.c[k] = A([j \in 1..(IF f.count >= 0 THEN f.count ELSE 2) |->
                                              IF j = 1 THEN U(p) ELSE U(<<>>)])],
                   label |-> <<"outofrange", "array", f.width>>]
                     : p \in ScalarOutOfRange(f.width)}
            ELSE {} : k \in 1..Len(vf)}

(* every combination of presence for the optional fields (C05: every        *)
(* optional/flag combination, including the contradictory ones)            *)
RECURSIVE PresenceFrom(_, _, _, _, _)
PresenceFrom(d, vf, k, acc, fuel) ==
  IF k > Len(vf) THEN acc
  ELSE LET f == vf[k].decl.fields[vf[k].i] IN
       IF IsOptional(f)
       THEN PresenceFrom(d, vf, k + 1,
              {[v EXCEPT !.c[k] = NoneV] : v \in acc}
              \cup {[v EXCEPT !.c[k] = IF f.kind = "scalar" THEN U(LimbsOfBits(Pattern(f.width)))
                                       ELSE MaxOfType(d, f.type, 2)] : v \in acc}, fuel)
       ELSE PresenceFrom(d, vf, k + 1, acc, fuel)

PresenceSet(d, id) ==
  LET vf == ValueFields(d, id)
      nopt == Cardinality({k \in 1..Len(vf) : IsOptional(vf[k].decl.fields[vf[k].i])})
  IN IF nopt = 0 \/ nopt > 6 THEN {} ELSE PresenceFrom(d, vf, 1, {DefaultVal(d, id)}, 2)

(* ----------------------- exhaustive small types ------------------------- *)
(* all values of a type whose value fields are plain scalars / enums with   *)
(* at most `maxbits` variable bits in total                                 *)
VarBits(d, id) ==
  LET vf == ValueFields(d, id)
      w(k) == LET f == vf[k].decl.fields[vf[k].i] IN
              IF IsOptional(f) THEN 999
              ELSE IF f.kind = "scalar" THEN f.width
              ELSE IF f.kind = "typedef" /\ IsKind(d, f.type, "enum") THEN DeclOf(d, f.type).width
              ELSE 999
  IN IF LeafHasPayload(d, id) THEN 999 ELSE SumSeq([k \in 1..Len(vf) |-> w(k)])

RECURSIVE AllBits(_)
AllBits(w) == IF w = 0 THEN {<<>>} ELSE {<<b>> \o r : b \in {0, 1}, r \in AllBits(w - 1)}

RECURSIVE AllFrom(_, _, _, _)
AllFrom(d, vf, k, acc) ==
  IF k > Len(vf) THEN acc
  ELSE LET f == vf[k].decl.fields[vf[k].i]
           w == IF f.kind = "scalar" THEN f.width ELSE DeclOf(d, f.type).width
           vals == IF f.kind = "scalar" THEN {LimbsOfBits(b) : b \in AllBits(w)}
                   ELSE {LimbsOfBits(b) : b \in {x \in AllBits(w) : EnumValidBits(DeclOf(d, f.type), x)}}
       IN AllFrom(d, vf, k + 1, {[v EXCEPT !.c[k] = U(p)] : v \in acc, p \in vals})

AllValues(d, id) == AllFrom(d, ValueFields(d, id), 1, {DefaultVal(d, id)})

(* ---------------------------- byte strings ------------------------------ *)
Prefixes(b) == {SubSeq(b, 1, n) : n \in 0..Len(b)}
Extensions(b) == {b \o <<0>>, b \o <<255>>, b \o <<1, 2>>}

BitFlips(b) ==
  IF Len(b) > 12 THEN {}
  ELSE {[b EXCEPT ![j] = IF (b[j] \div (2 ^ k)) % 2 = 1 THEN b[j] - 2 ^ k ELSE b[j] + 2 ^ k]
          : j \in 1..Len(b), k \in 0..7}

ByteFills(b) ==      \* runs of up to 8 octets forced to 00 / FF (sizes, counts at 0 and max)
  IF Len(b) > 24 THEN {}
  ELSE {[j \in 1..Len(b) |-> IF j >= lo /\ j < lo + n THEN x ELSE b[j]]
          : lo \in 1..Len(b), n \in {1, 2, 3, 4, 8}, x \in {0, 255}}

(* declarations whose fields take part in encoding a value of type id *)
RECURSIVE ReachDecls(_, _, _)
ReachDecls(d, id, fuel) ==
  IF fuel = 0 \/ ~HasDecl(d, id) THEN {}
  ELSE LET chain == Chain(d, id)
           own == {chain[k].id : k \in 1..Len(chain)}
           refs == UNION {{chain[k].fields[i].type : i \in
                              {j \in 1..Len(chain[k].fields) :
                                  chain[k].fields[j].kind \in {"typedef", "array"}
                                  /\ chain[k].fields[j].type # ""
                                  /\ IsKind(d, chain[k].fields[j].type, "struct")}}
                            : k \in 1..Len(chain)}
       IN own \cup UNION {ReachDecls(d, r, fuel - 1) : r \in refs}

(* override candidates: <<key, bits, label>> *)
OverrideSet(d, id, v) ==
  LET decls == ReachDecls(d, id, 4)
      keys == {<<x, i>> \in decls \X (1..24) :
                 i <= Len(DeclOf(d, x).fields)
                 /\ LET f == DeclOf(d, x).fields[i] IN
                    \/ f.kind \in {"size", "count", "elementsize", "fixed", "fixedenum", "reserved"}
                    \/ IsFlag(DeclOf(d, x), f)
                    (* a field of an ancestor that a constraint of id (or of one of its ancestors) fixes:     *)
                    (* a constant of the encoding, like a fixed field ("constraints must match", C04)          *)
                    \/ /\ f.id # "" /\ IsBitfield(d, f)
                       /\ \E k \in 1..Len(Chain(d, id)) : Chain(d, id)[k].id = x
                       /\ \E c \in 1..Len(AllCons(d, id)) : AllCons(d, id)[c].id = f.id}
      ref == EncodeType(d, id, v)
  IN UNION {LET decl == DeclOf(d, key[1])
                f == decl.fields[key[2]]
                w == BitWidth(d, f)
                pts == {Zeros(w), OneHot(w, 1), Ones(w), DecBits(Ones(w)), OneHot(w, w)}
                       \cup (IF w >= 2 THEN {OneHot(w, 2), IncBits(OneHot(w, 2))} ELSE {})
            IN {[key |-> key, bits |-> p, kind |-> f.kind] : p \in pts}
           : key \in keys}

SemanticMutants(d, id, v) ==
  {[bytes |-> EncodeWith(d, id, v, (o.key :> o.bits)).bytes,
    label |-> <<"override", o.kind, o.key[1], o.key[2]>>] : o \in OverrideSet(d, id, v)}

(* the value with one enum-typed field set to an undeclared value *)
EnumMutants(d, id, v) ==
  LET vf == ValueFields(d, id)
  IN UNION {LET f == vf[k].decl.fields[vf[k].i] IN
            IF f.kind = "typedef" /\ ~IsOptional(f) /\ IsKind(d, f.type, "enum")
            THEN {[bytes |-> EncodeType(d, id, [v EXCEPT !.c[k] = U(p)]).bytes,
                   label |-> <<"badenum", f.id>>] : p \in EnumBadPoints(DeclOf(d, f.type))}
            ELSE {} : k \in 1..Len(vf)}

(* padding octets set to FF: override key is the padding field itself *)
PaddingMutants(d, id, v) ==
  LET decls == ReachDecls(d, id, 4)
      keys == {<<x, i>> \in decls \X (1..24) :
                 i <= Len(DeclOf(d, x).fields) /\ DeclOf(d, x).fields[i].kind = "padding"}
  IN {[bytes |-> EncodeWith(d, id, v, (key :> <<1>>)).bytes, label |-> <<"padding", key[1]>>]
        : key \in keys}

AllShort(n) ==
  UNION {[1..m -> 0..255] : m \in 0..n}

=============================================================================
