SPECIFICATION BSpec
CONSTANTS
  MaxDecls = 4
  MaxFields = 5
  MaxEnums = 2
INVARIANT BuildTypeOK
INVARIANT UniqueIds
INVARIANT EmitDesc
CHECK_DEADLOCK FALSE
