------------------------------ MODULE PdlDesc ------------------------------
(***************************************************************************)
(* Abstract syntax of PDL descriptions and lookups over it.                *)
(*                                                                         *)
(* A description is a record [endian, decls].  Every record has a uniform  *)
(* schema (all keys present) because TLC faults on a missing record field: *)
(*                                                                         *)
(*  Decl  = [kind, id, width, tags, parent, cons, fields, fn]              *)
(*          kind \in {"enum","packet","struct","group","custom",           *)
(*                    "checksum","test"}; width = -1 for an unsized custom *)
(*  Tag   = [k, id, v, lo, hi, sub]   k \in {"value","range","other"}      *)
(*  Cons  = [id, v, tag]              tag = "" for an integer constraint   *)
(*  Field = [kind, id, width, v, type, tag, target, count, mod, cond,      *)
(*           condv, condtag, cons, size]                                   *)
(*          kind \in {"scalar","reserved","fixed","fixedenum","size",      *)
(*            "count","elementsize","payload","body","array","typedef",    *)
(*            "padding","group","checksum_start"}                          *)
(*          count = -1: no static count; mod = -1: no size modifier;       *)
(*          cond = "": not optional; condtag # "": the condition names a   *)
(*          tag (always ill-formed); size: padding octets.                 *)
(*                                                                         *)
(* Numbers that may need 64 bits (tag values, fixed values, constraint     *)
(* values) are limb sequences (PdlBits); widths, counts, sizes are small   *)
(* naturals.                                                               *)
(***************************************************************************)
EXTENDS PdlBits, TLC

IsBig(d) == d.endian = "big"

DeclIds(d) == {d.decls[i].id : i \in 1..Len(d.decls)}
HasDecl(d, id) == \E i \in 1..Len(d.decls) : d.decls[i].id = id
DeclOf(d, id) == d.decls[CHOOSE i \in 1..Len(d.decls) : d.decls[i].id = id]

IsKind(d, id, k) == HasDecl(d, id) /\ DeclOf(d, id).kind = k

SeqToSet(s) == {s[i] : i \in 1..Len(s)}

(* ----------------------------------------------------------------------- *)
(* Group inlining (reference.md, "Group field"): the group's fields are    *)
(* expanded in place; a constrained scalar becomes a fixed field of the    *)
(* same width, a constrained enum-typed field a fixed enum field.  An      *)
(* inner group field's own constraints take precedence over constraints    *)
(* handed down from an outer group field.                                  *)
(* ----------------------------------------------------------------------- *)
ConsFor(cons, id) == cons[CHOOSE i \in 1..Len(cons) : cons[i].id = id]
HasCons(cons, id) == \E i \in 1..Len(cons) : cons[i].id = id

(* later constraints override earlier ones with the same id *)
MergeCons(outer, inner) ==
  SelectSeq(outer, LAMBDA c : ~HasCons(inner, c.id)) \o inner

RECURSIVE InlineFields(_, _, _, _)
InlineFields(d, fields, cons, depth) ==
  IF fields = <<>> THEN <<>>
  ELSE LET f == Head(fields)
           rest == InlineFields(d, Tail(fields), cons, depth)
       IN IF f.kind = "group" /\ depth > 0 /\ IsKind(d, f.type, "group")
          THEN InlineFields(d, DeclOf(d, f.type).fields, MergeCons(cons, f.cons), depth - 1) \o rest
          ELSE IF f.kind = "scalar" /\ HasCons(cons, f.id)
          THEN <<[f EXCEPT !.kind = "fixed", !.v = ConsFor(cons, f.id).v, !.id = ""]>> \o rest
          ELSE IF f.kind = "typedef" /\ HasCons(cons, f.id)
          THEN <<[f EXCEPT !.kind = "fixedenum", !.tag = ConsFor(cons, f.id).tag, !.id = ""]>> \o rest
          ELSE <<f>> \o rest

InlineGroups(d) ==
  [d EXCEPT !.decls =
     LET ds == SelectSeq(d.decls, LAMBDA x : x.kind # "group")
     IN [i \in 1..Len(ds) |->
           IF ds[i].kind \in {"packet", "struct"}
           THEN [ds[i] EXCEPT !.fields = InlineFields(d, ds[i].fields, <<>>, 8)]
           ELSE ds[i]]]

(* ----------------------------------------------------------------------- *)
(* Inheritance                                                             *)
(* ----------------------------------------------------------------------- *)
HasParent(decl) == decl.parent # ""

RECURSIVE ChainFrom(_, _, _)
(* declarations from the root down to `id` (root first); depth-bounded so  *)
(* that an ill-formed cyclic description cannot make evaluation diverge    *)
ChainFrom(d, id, fuel) ==
  LET decl == DeclOf(d, id)
  IN IF HasParent(decl) /\ fuel > 0 /\ HasDecl(d, decl.parent)
     THEN ChainFrom(d, decl.parent, fuel - 1) \o <<decl>>
     ELSE <<decl>>

Chain(d, id) == ChainFrom(d, id, 16)

Children(d, id) == {d.decls[i].id : i \in {j \in 1..Len(d.decls) : d.decls[j].parent = id}}

ChildSeq(d, id) ==     \* in declaration order
  LET ix == SelectSeq([i \in 1..Len(d.decls) |-> i], LAMBDA j : d.decls[j].parent = id)
  IN [k \in 1..Len(ix) |-> d.decls[ix[k]].id]

RECURSIVE Descendants(_, _, _)
Descendants(d, id, fuel) ==
  IF fuel = 0 THEN {}
  ELSE Children(d, id) \cup UNION {Descendants(d, c, fuel - 1) : c \in Children(d, id)}

(* all constraints that apply to a declaration: its own and its ancestors' *)
AllCons(d, id) == Concat([i \in 1..Len(Chain(d, id)) |-> Chain(d, id)[i].cons])

(* ----------------------------------------------------------------------- *)
(* Fields                                                                  *)
(* ----------------------------------------------------------------------- *)
FieldIx(decl, P(_)) == {i \in 1..Len(decl.fields) : P(decl.fields[i])}

IsPayloadField(f) == f.kind \in {"payload", "body"}
HasPayload(decl) == \E i \in 1..Len(decl.fields) : IsPayloadField(decl.fields[i])
PayloadIndex(decl) == CHOOSE i \in 1..Len(decl.fields) : IsPayloadField(decl.fields[i])

IsOptional(f) == f.cond # ""

(* a scalar used as the condition of an optional field of the same scope *)
IsFlag(decl, f) ==
  /\ f.kind = "scalar" /\ ~IsOptional(f)
  /\ \E i \in 1..Len(decl.fields) : decl.fields[i].cond = f.id

(* the optional fields governed by a flag, in declaration order *)
FlagUsers(decl, id) == SelectSeq(decl.fields, LAMBDA g : g.cond = id)

EnumOfField(d, f) == DeclOf(d, f.type)

IsEnumTyped(d, f) == f.kind \in {"typedef", "fixedenum"} /\ IsKind(d, f.type, "enum")

(* reference.md: which fields are bit-fields *)
IsBitfield(d, f) ==
  /\ ~IsOptional(f)
  /\ \/ f.kind \in {"scalar", "reserved", "fixed", "size", "count", "elementsize"}
     \/ IsEnumTyped(d, f)

BitWidth(d, f) == IF IsEnumTyped(d, f) THEN EnumOfField(d, f).width ELSE f.width

(* the field that gives the extent of array/payload `id` in scope decl *)
TargetName(f) == IF f.kind = "payload" THEN "_payload_"
                 ELSE IF f.kind = "body" THEN "_body_" ELSE f.id

HasSizeField(decl, name) ==
  \E i \in 1..Len(decl.fields) : decl.fields[i].kind = "size" /\ decl.fields[i].target = name
HasCountField(decl, name) ==
  \E i \in 1..Len(decl.fields) : decl.fields[i].kind = "count" /\ decl.fields[i].target = name
HasElemSizeField(decl, name) ==
  \E i \in 1..Len(decl.fields) : decl.fields[i].kind = "elementsize" /\ decl.fields[i].target = name
SizeFieldOf(decl, name) ==
  decl.fields[CHOOSE i \in 1..Len(decl.fields) :
                  decl.fields[i].kind = "size" /\ decl.fields[i].target = name]
CountFieldOf(decl, name) ==
  decl.fields[CHOOSE i \in 1..Len(decl.fields) :
                  decl.fields[i].kind = "count" /\ decl.fields[i].target = name]

(* octets of padding that follow field i, or -1 *)
PaddingAfter(decl, i) ==
  IF i < Len(decl.fields) /\ decl.fields[i + 1].kind = "padding"
  THEN decl.fields[i + 1].size ELSE -1

(* data fields: what a value of the type carries by name *)
IsDataField(decl, f) ==
  /\ f.kind \in {"scalar", "typedef", "array"}
  /\ ~IsFlag(decl, f)

=============================================================================
