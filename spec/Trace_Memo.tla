------------------------------ MODULE Trace_Memo ------------------------------
(***************************************************************************)
(* Determinism monitor (C11).  The log (IOEnv.TRACE) has one JSON object   *)
(* per key: [key, digests: <<d1, d2, ...>>] - every output observed for    *)
(* the same (source, file name, options, backend, front end), in process   *)
(* or across processes.  Each key is its own behaviour; every observation  *)
(* must be an Output(key, digest) step of PdlCompile, which is enabled     *)
(* only if the digest equals the one already memoised.                     *)
(***************************************************************************)
EXTENDS PdlCompile, Json, IOUtils

Keys == ndJsonDeserialize(IOEnv.TRACE)

VARIABLES r, l
mvars == <<stage, gen, compiled, memo, r, l>>

MInit == CInit /\ r \in 1..Len(Keys) /\ l = 1

MNext ==
  /\ l <= Len(Keys[r].digests)
  /\ Output(Keys[r].key, Keys[r].digests[l])
  /\ l' = l + 1 /\ UNCHANGED r

MSpec == MInit /\ [][MNext]_mvars

Accepted == l = Len(Keys[r].digests) + 1
Report == ~Accepted \/ PrintT(<<"ACCEPT", ToJson([key |-> Keys[r].key])>>)

=============================================================================
