SPECIFICATION Spec
INVARIANT ColumnInv
INVARIANT RangeInv
INVARIANT NestInv
INVARIANT EmitSrc
CHECK_DEADLOCK FALSE
