----------------------------- MODULE PdlAnalyzer -----------------------------
(***************************************************************************)
(* Static semantics of PDL (reference.md; analyzer::ErrorCode): one        *)
(* predicate per well-formedness rule, over the description *as written*   *)
(* (groups not yet inlined unless stated), and the pass pipeline that      *)
(* decides which violated rules are reported first.                        *)
(*                                                                         *)
(* V(d, c) is TRUE iff description d violates the rule with code c.        *)
(* Deliberate deviations of the implementation that the properties accept  *)
(* are named Dev_*.                                                        *)
(***************************************************************************)
EXTENDS PdlSchema

W64 == 64
B64(limbs) == BitsOfLimbs(limbs, W64)
LtL(a, b) == LeqBits(B64(a), B64(b)) /\ B64(a) # B64(b)
LeL(a, b) == LeqBits(B64(a), B64(b))
EqL(a, b) == B64(a) = B64(b)
MaxLimbs(w) == LimbsOfBits(Ones(IF w > 64 THEN 64 ELSE w))      \* 2^w - 1 (saturating at 64 bits, as usize does)

Decls(d) == 1..Len(d.decls)
Fields(x) == 1..Len(x.fields)
PS(d) == {i \in Decls(d) : d.decls[i].kind \in {"packet", "struct"}}
PSG(d) == {i \in Decls(d) : d.decls[i].kind \in {"packet", "struct", "group"}}
Enums(d) == {i \in Decls(d) : d.decls[i].kind = "enum"}

Dev_TestDeclsDropped == TRUE        \* the parser discards test declarations: E9 / E10 cannot be raised
Dev_ChecksumUnchecked == TRUE       \* check_checksum_fields is a stub
Dev_MultipleOptionalsPerFlag == TRUE

(* the first declaration with a given id (Scope keeps the last, but once ids are unique it is the same) *)
KindOf(d, id) == IF HasDecl(d, id) THEN DeclOf(d, id).kind ELSE "none"

(* ---- pass 0: Scope::new ---- *)
V1(d) == \E i \in Decls(d), j \in Decls(d) : i < j /\ d.decls[i].id = d.decls[j].id

(* ---- pass 1: check_decl_identifiers ---- *)
(* dependency edges followed by the cycle check: group fields, typedef fields, arrays with a   *)
(* static count (arrays without one may be recursive, e.g. TLV), and the parent link           *)
Deps(d, i) ==
  LET x == d.decls[i] IN
  {x.fields[j].type : j \in {k \in Fields(x) :
       \/ (x.fields[k].kind = "group" /\ KindOf(d, x.fields[k].type) = "group")
       \/ (x.fields[k].kind = "typedef" /\ KindOf(d, x.fields[k].type) \notin {"none", "packet"})
       \/ (x.fields[k].kind = "array" /\ x.fields[k].type # "" /\ x.fields[k].count >= 0
             /\ KindOf(d, x.fields[k].type) \notin {"none", "packet"})}}
  \cup (IF x.parent # "" /\ KindOf(d, x.parent) = x.kind THEN {x.parent} ELSE {})

RECURSIVE Reach(_, _, _)
Reach(d, ids, fuel) ==
  IF fuel = 0 THEN ids
  ELSE LET nxt == ids \cup UNION {Deps(d, CHOOSE i \in Decls(d) : d.decls[i].id = id) : id \in {y \in ids : HasDecl(d, y)}}
       IN IF nxt = ids THEN ids ELSE Reach(d, nxt, fuel - 1)

V2(d) == \E i \in Decls(d) : d.decls[i].id \in Reach(d, Deps(d, i), Len(d.decls) + 1)
V3(d) == \E i \in PSG(d) : \E j \in Fields(d.decls[i]) :
            d.decls[i].fields[j].kind = "group" /\ KindOf(d, d.decls[i].fields[j].type) = "none"
V4(d) == \E i \in PSG(d) : \E j \in Fields(d.decls[i]) :
            d.decls[i].fields[j].kind = "group" /\ KindOf(d, d.decls[i].fields[j].type) \notin {"none", "group"}
TypeRefs(x) == {j \in Fields(x) : x.fields[j].kind = "typedef" \/ (x.fields[j].kind = "array" /\ x.fields[j].type # "")}
V5(d) == \E i \in PSG(d) : \E j \in TypeRefs(d.decls[i]) : KindOf(d, d.decls[i].fields[j].type) = "none"
V6(d) == \E i \in PSG(d) : \E j \in TypeRefs(d.decls[i]) : KindOf(d, d.decls[i].fields[j].type) \in {"packet", "group"}
V7(d) == \E i \in PS(d) : d.decls[i].parent # "" /\ KindOf(d, d.decls[i].parent) = "none"
V8(d) == \E i \in PS(d) : d.decls[i].parent # "" /\ KindOf(d, d.decls[i].parent) \notin {"none", d.decls[i].kind}

(* ---- pass 2 ---- *)
V11(d) == \E i \in PSG(d) : \E j \in Fields(d.decls[i]), k \in Fields(d.decls[i]) :
            j < k /\ d.decls[i].fields[j].id # "" /\ d.decls[i].fields[j].id = d.decls[i].fields[k].id

(* ---- pass 3: enums ---- *)
AllTagIds(e) ==      \* every identifier an enum declares, with multiplicity (as a sequence)
  Concat([t \in 1..Len(e.tags) |-> <<e.tags[t].id>> \o [s \in 1..Len(e.tags[t].sub) |-> e.tags[t].sub[s].id]])
AllTagValues(e) ==
  Concat([t \in 1..Len(e.tags) |->
            IF e.tags[t].k = "value" THEN <<e.tags[t].v>>
            ELSE IF e.tags[t].k = "range" THEN [s \in 1..Len(e.tags[t].sub) |-> e.tags[t].sub[s].v] ELSE <<>>])
HasDup(s) == \E a \in 1..Len(s), b \in 1..Len(s) : a < b /\ s[a] = s[b]
HasDupL(s) == \E a \in 1..Len(s), b \in 1..Len(s) : a < b /\ EqL(s[a], s[b])
RangesOf(e) == SelectSeq(e.tags, LAMBDA t : t.k = "range")
LoOf(r) == IF LeL(r.lo, r.hi) THEN r.lo ELSE r.hi
HiOf(r) == IF LeL(r.lo, r.hi) THEN r.hi ELSE r.lo

V12(d) == \E i \in Enums(d) : HasDup(AllTagIds(d.decls[i]))
V13(d) == \E i \in Enums(d) : HasDupL(AllTagValues(d.decls[i]))
V14(d) == \E i \in Enums(d) :
   LET e == d.decls[i] IN
   \/ \E t \in 1..Len(e.tags) : e.tags[t].k = "value" /\ ~LeL(e.tags[t].v, MaxLimbs(e.width))
   \/ \E t \in 1..Len(e.tags) : e.tags[t].k = "range" /\
         \E s \in 1..Len(e.tags[t].sub) : ~(LeL(LoOf(e.tags[t]), e.tags[t].sub[s].v) /\ LeL(e.tags[t].sub[s].v, HiOf(e.tags[t])))
V40(d) == \E i \in Enums(d) :
   LET e == d.decls[i] IN
   \E t \in 1..Len(e.tags) : e.tags[t].k = "range" /\
      (~LeL(e.tags[t].lo, MaxLimbs(e.width)) \/ ~LeL(e.tags[t].hi, MaxLimbs(e.width)) \/ LeL(e.tags[t].hi, e.tags[t].lo))
V41(d) == \E i \in Enums(d) :
   LET rs == RangesOf(d.decls[i]) IN
   \E a \in 1..Len(rs), b \in 1..Len(rs) : a < b /\ ~(LtL(HiOf(rs[a]), LoOf(rs[b])) \/ LtL(HiOf(rs[b]), LoOf(rs[a])))
V43(d) == \E i \in Enums(d) :
   LET e == d.decls[i]  rs == RangesOf(e) IN
   \E t \in 1..Len(e.tags) : e.tags[t].k = "value" /\
      \E r \in 1..Len(rs) : LeL(LoOf(rs[r]), e.tags[t].v) /\ LeL(e.tags[t].v, HiOf(rs[r]))
V44(d) == \E i \in Enums(d) : Cardinality({t \in 1..Len(d.decls[i].tags) : d.decls[i].tags[t].k = "other"}) > 1

(* ---- pass 4: size / count / element-size fields ---- *)
(* Ref (Identifiers): the fields of a group belong to the scope of the packets that use the group, *)
(* so the designated field is looked up in the packet's fields *with its groups expanded*.         *)
(* (The implementation runs this pass before inlining: it rejects a size/count field whose array   *)
(* comes from a group field, or sits in a group while the array is in the packet.)                 *)
NI(d) == InlineGroups(d)
Same(x, kinds, a, b) == x.fields[a].kind \in kinds /\ x.fields[b].kind \in kinds /\ x.fields[a].target = x.fields[b].target
(* size and count fields share one table: a duplicate is reported with the code of the later field *)
V23(d) == \E i \in PS(NI(d)) : \E a \in Fields(NI(d).decls[i]), b \in Fields(NI(d).decls[i]) :
            a < b /\ Same(NI(d).decls[i], {"size", "count"}, a, b) /\ NI(d).decls[i].fields[b].kind = "size"
V26(d) == \E i \in PS(NI(d)) : \E a \in Fields(NI(d).decls[i]), b \in Fields(NI(d).decls[i]) :
            a < b /\ Same(NI(d).decls[i], {"size", "count"}, a, b) /\ NI(d).decls[i].fields[b].kind = "count"
V29(d) == \E i \in PS(NI(d)) : \E a \in Fields(NI(d).decls[i]), b \in Fields(NI(d).decls[i]) :
            a < b /\ Same(NI(d).decls[i], {"elementsize"}, a, b)
(* the field a size/count/element-size field designates: by name, _payload_ / _body_ by kind *)
Designated(x, f) ==
  {j \in Fields(x) : IF f.target = "_payload_" THEN x.fields[j].kind = "payload"
                     ELSE IF f.target = "_body_" THEN x.fields[j].kind = "body"
                     ELSE x.fields[j].id = f.target /\ x.fields[j].id # ""}
FirstOf(s) == CHOOSE j \in s : \A k \in s : j <= k
VTarget(d, kind, undeclared, okKinds) ==
  \E i \in PS(NI(d)) : \E j \in Fields(NI(d).decls[i]) :
     LET x == NI(d).decls[i]  f == x.fields[j]  t == Designated(x, f) IN
     f.kind = kind /\ (IF undeclared THEN t = {} ELSE t # {} /\ x.fields[FirstOf(t)].kind \notin okKinds)
NamedTarget(x, f) == {k \in Fields(x) : x.fields[k].id = f.target /\ x.fields[k].id # ""}
VNamed(d, kind, undeclared) ==
  \E i \in PS(NI(d)) : \E j \in Fields(NI(d).decls[i]) :
     LET x == NI(d).decls[i]  f == x.fields[j]  t == NamedTarget(x, f) IN
     f.kind = kind /\ (IF undeclared THEN t = {} ELSE t # {} /\ x.fields[FirstOf(t)].kind # "array")
V24(d) == VTarget(d, "size", TRUE, {})
V25(d) == VTarget(d, "size", FALSE, {"array", "payload", "body"})
V27(d) == VNamed(d, "count", TRUE)
V28(d) == VNamed(d, "count", FALSE)
V30(d) == VNamed(d, "elementsize", TRUE)
V31(d) == VNamed(d, "elementsize", FALSE)

(* ---- pass 5: fixed fields ---- *)
V32(d) == \E i \in PSG(d) : \E j \in Fields(d.decls[i]) :
            LET f == d.decls[i].fields[j] IN f.kind = "fixed" /\ ~FitsLimbs(f.v, f.width)
V33(d) == \E i \in PSG(d) : \E j \in Fields(d.decls[i]) :
            d.decls[i].fields[j].kind = "fixedenum" /\ KindOf(d, d.decls[i].fields[j].type) = "none"
V34(d) == \E i \in PSG(d) : \E j \in Fields(d.decls[i]) :
            LET f == d.decls[i].fields[j] IN
            f.kind = "fixedenum" /\ KindOf(d, f.type) = "enum" /\ ~HasAnyTag(DeclOf(d, f.type), f.tag)
V35(d) == \E i \in PSG(d) : \E j \in Fields(d.decls[i]) :
            d.decls[i].fields[j].kind = "fixedenum" /\ KindOf(d, d.decls[i].fields[j].type) \notin {"none", "enum"}

(* ---- passes 6-8: payload, array, padding ---- *)
V36(d) == \E i \in PSG(d) : Cardinality({j \in Fields(d.decls[i]) : IsPayloadField(d.decls[i].fields[j])}) > 1
V37(d) == \E i \in Decls(d) :
            /\ d.decls[i].kind \in {"packet", "struct", "group", "enum", "custom", "checksum"}
            /\ ~\E j \in Fields(d.decls[i]) : IsPayloadField(d.decls[i].fields[j])
            /\ \E c \in Decls(d) : d.decls[c].parent = d.decls[i].id /\ d.decls[c].fields # <<>>
V38(d) == \E i \in PS(NI(d)) : \E j \in Fields(NI(d).decls[i]) :
            LET x == NI(d).decls[i]  f == x.fields[j] IN
            f.kind = "array" /\ f.count >= 0 /\
            \E k \in Fields(x) : x.fields[k].kind \in {"size", "count"} /\ x.fields[k].target = f.id
V39(d) == \E i \in PSG(d) : \E j \in Fields(d.decls[i]) :
            d.decls[i].fields[j].kind = "padding" /\ (j = 1 \/ d.decls[i].fields[j - 1].kind # "array")

(* ---- pass 9: optional fields ---- *)
Opt(x) == {j \in Fields(x) : x.fields[j].cond # ""}
Before(x, j, id) == {k \in 1..(j - 1) : x.fields[k].id = id /\ id # ""}
LastOf(s) == CHOOSE j \in s : \A k \in s : k <= j
V45(d) == \E i \in PSG(d) : \E j \in Opt(d.decls[i]) : d.decls[i].fields[j].kind \notin {"scalar", "typedef"}
V46(d) == \E i \in PSG(d) : \E j \in Opt(d.decls[i]) : Before(d.decls[i], j, d.decls[i].fields[j].cond) = {}
V49(d) == \E i \in PSG(d) : \E j \in Opt(d.decls[i]) :
            LET x == d.decls[i]  b == Before(x, j, x.fields[j].cond) IN b # {} /\ x.fields[LastOf(b)].cond # ""
V47(d) == \E i \in PSG(d) : \E j \in Opt(d.decls[i]) :
            LET x == d.decls[i]  b == Before(x, j, x.fields[j].cond) IN
            b # {} /\ x.fields[LastOf(b)].cond = "" /\ ~(x.fields[LastOf(b)].kind = "scalar" /\ x.fields[LastOf(b)].width = 1)
V48(d) == \E i \in PSG(d) : \E j \in Opt(d.decls[i]) :
            d.decls[i].fields[j].condtag # "" \/ d.decls[i].fields[j].condv \notin {0, 1}

(* ---- passes 10/11: constraints (group fields before inlining, inheritance after) ---- *)
(* the field a constraint designates, looked up in `scopeFields` (a sequence of fields) *)
CField(fields, id) == {k \in 1..Len(fields) : fields[k].id = id /\ id # ""}
IsFlagIn(fields, f) == \E k \in 1..Len(fields) : fields[k].cond = f.id /\ f.id # ""

(* `desugared`: condition flags have become Flag fields (inheritance constraints are checked after *)
(* desugar_flags; a flag's value is derived from the optional field, so it cannot be constrained)    *)
ConsCode(d, fields, c, desugared) ==       \* the code a single constraint raises, or 0
  IF CField(fields, c.id) = {} THEN 15
  ELSE LET f == fields[FirstOf(CField(fields, c.id))] IN
       IF f.kind = "array" THEN 16
       ELSE IF desugared /\ f.kind = "scalar" /\ ~IsOptional(f) /\ IsFlagIn(fields, f) THEN 16
       ELSE IF f.kind = "scalar" THEN (IF c.tag # "" THEN 17 ELSE IF ~FitsLimbs(c.v, f.width) THEN 18 ELSE 0)
       ELSE IF f.kind = "typedef" THEN
            (IF KindOf(d, f.type) = "none" THEN 0
             ELSE IF KindOf(d, f.type) = "enum" THEN
                  (IF c.tag = "" THEN 19
                   ELSE LET e == DeclOf(d, f.type) IN
                        IF ~HasAnyTag(e, c.tag) THEN 20
                        ELSE IF \E t \in 1..Len(e.tags) : e.tags[t].id = c.tag /\ e.tags[t].k = "range" THEN 42 ELSE 0)
             ELSE 21)
       ELSE 0

(* fields visible to a constraint of a child: its ancestors' fields, groups inlined *)
RECURSIVE ScopeFields(_, _, _)
ScopeFields(d, id, fuel) ==
  IF fuel = 0 \/ ~HasDecl(d, id) THEN <<>>
  ELSE LET x == DeclOf(d, id) IN
       InlineFields(d, x.fields, <<>>, 8) \o (IF x.parent # "" THEN ScopeFields(d, x.parent, fuel - 1) ELSE <<>>)

RECURSIVE AncestorCons(_, _, _)
AncestorCons(d, id, fuel) ==
  IF fuel = 0 \/ ~HasDecl(d, id) THEN <<>>
  ELSE LET x == DeclOf(d, id) IN x.cons \o (IF x.parent # "" THEN AncestorCons(d, x.parent, fuel - 1) ELSE <<>>)

(* Ref (Identifiers): "Field identifiers declared in a packet belong to the scope that extends to the      *)
(* packet and all derived packets", "field identifiers declared in a group belong to the scope that          *)
(* extends to the packets declaring a group field for this group", "two fields may not be declared with      *)
(* the same identifier in any packet scope".  V11 sees the fields written in one declaration; V11Scope       *)
(* sees the whole scope: the declaration's fields with groups expanded (a constrained group field has       *)
(* become a fixed field and carries no identifier any more) and the fields of every ancestor.  It is        *)
(* evaluated once groups can be expanded, i.e. after the group-constraint pass.                              *)
DupIds(fields) == \E j \in 1..Len(fields), k \in 1..Len(fields) : j < k /\ fields[j].id # "" /\ fields[j].id = fields[k].id
V11Scope(d) == \E i \in PS(d) : DupIds(ScopeFields(d, d.decls[i].id, 8))

(* codes raised by group-field constraint lists (pass 10) and by inheritance constraint lists (pass 12) *)
GroupConsCodes(d) ==
  UNION {UNION {LET f == d.decls[i].fields[j] IN
                IF f.kind = "group" /\ KindOf(d, f.type) = "group"
                THEN {ConsCode(d, DeclOf(d, f.type).fields, f.cons[k], FALSE) : k \in 1..Len(f.cons)}
                     \cup (IF \E a \in 1..Len(f.cons), b \in 1..Len(f.cons) : a < b /\ f.cons[a].id = f.cons[b].id THEN {22} ELSE {})
                ELSE {} : j \in Fields(d.decls[i])} : i \in PSG(d)} \ {0}

DeclConsCodes(d) ==
  UNION {LET x == d.decls[i] IN
         IF x.parent # "" /\ KindOf(d, x.parent) = x.kind
         THEN {ConsCode(d, ScopeFields(d, x.parent, 8), x.cons[k], TRUE) : k \in 1..Len(x.cons)}
              \cup (IF \E a \in 1..Len(x.cons) :
                          \/ \E b \in 1..Len(x.cons) : a < b /\ x.cons[a].id = x.cons[b].id
                          \/ \E b \in 1..Len(AncestorCons(d, x.parent, 8)) : AncestorCons(d, x.parent, 8)[b].id = x.cons[a].id
                    THEN {22} ELSE {})
         ELSE {} : i \in PS(d)} \ {0}

(* ---- passes 12/13: offsets and sizes, on the inlined description ---- *)
RECURSIVE OffsetBad(_, _, _, _)
OffsetBad(d, x, j, off) ==
  IF j > Len(x.fields) THEN FALSE
  ELSE LET f == x.fields[j]
           (* Ref (Optional): "an optional field must start on a byte boundary, and have a size that is an *)
           (* integral number of bytes" - an optional scalar or enum field is not a bit-field              *)
           needs == \/ IsOptional(f)
                    \/ /\ f.kind \in {"payload", "body", "typedef", "array", "padding", "checksum_start"}
                       /\ ~(f.kind = "typedef" /\ KindOf(d, f.type) = "enum")
           sz == FieldSizeF(d, x, j, 8)
       IN (needs /\ off % 8 # 0) \/ OffsetBad(d, x, j + 1, IF sz.k = "static" THEN off + sz.n ELSE 0)
V51(d) == LET n == InlineGroups(d) IN \E i \in PS(n) : OffsetBad(n, n.decls[i], 1, 0)
V52(d) == LET n == InlineGroups(d) IN \E i \in PS(n) : \E j \in Fields(n.decls[i]) :
            LET f == n.decls[i].fields[j] IN
            \/ f.kind = "array" /\ f.type = "" /\ f.width % 8 # 0
            \/ IsOptional(f) /\ f.kind = "scalar" /\ f.width % 8 # 0
            \/ IsOptional(f) /\ f.kind = "typedef" /\ KindOf(n, f.type) = "enum" /\ DeclOf(n, f.type).width % 8 # 0
StaticSum(d, x) == SumSeq([j \in Fields(x) |-> LET s == FieldSizeF(d, x, j, 8) IN IF s.k = "static" THEN s.n ELSE 0])
V53(d) == LET n == InlineGroups(d) IN \E i \in PS(n) : StaticSum(n, n.decls[i]) % 8 # 0

(* ---- the pipeline: passes in the order of analyze(); the first pass that finds a violation ---- *)
(* rejects the description with (a non-empty subset of) that pass's codes                        *)
PassCodes(d, p) ==
  CASE p = 0 -> IF V1(d) THEN {1} ELSE {}
    [] p = 1 -> {c \in {2, 3, 4, 5, 6, 7, 8} :
                   CASE c = 2 -> V2(d) [] c = 3 -> V3(d) [] c = 4 -> V4(d) [] c = 5 -> V5(d)
                     [] c = 6 -> V6(d) [] c = 7 -> V7(d) [] c = 8 -> V8(d)}
    [] p = 2 -> IF V11(d) THEN {11} ELSE {}
    [] p = 3 -> {c \in {12, 13, 14, 40, 41, 43, 44} :
                   CASE c = 12 -> V12(d) [] c = 13 -> V13(d) [] c = 14 -> V14(d) [] c = 40 -> V40(d)
                     [] c = 41 -> V41(d) [] c = 43 -> V43(d) [] c = 44 -> V44(d)}
    [] p = 4 -> {c \in {23, 24, 25, 26, 27, 28, 29, 30, 31} :
                   CASE c = 23 -> V23(d) [] c = 24 -> V24(d) [] c = 25 -> V25(d) [] c = 26 -> V26(d) [] c = 27 -> V27(d)
                     [] c = 28 -> V28(d) [] c = 29 -> V29(d) [] c = 30 -> V30(d) [] c = 31 -> V31(d)}
    [] p = 5 -> {c \in {32, 33, 34, 35} : CASE c = 32 -> V32(d) [] c = 33 -> V33(d) [] c = 34 -> V34(d) [] c = 35 -> V35(d)}
    [] p = 6 -> {c \in {36, 37} : CASE c = 36 -> V36(d) [] c = 37 -> V37(d)}
    [] p = 7 -> IF V38(d) THEN {38} ELSE {}
    [] p = 8 -> IF V39(d) THEN {39} ELSE {}
    [] p = 9 -> {c \in {45, 46, 47, 48, 49} :
                   CASE c = 45 -> V45(d) [] c = 46 -> V46(d) [] c = 47 -> V47(d) [] c = 48 -> V48(d) [] c = 49 -> V49(d)}
    [] p = 10 -> GroupConsCodes(d)
    [] p = 11 -> IF V11Scope(d) THEN {11} ELSE {}
    [] p = 12 -> DeclConsCodes(d)
    [] p = 13 -> IF V51(d) THEN {51} ELSE {}
    [] p = 14 -> {c \in {52, 53} : CASE c = 52 -> V52(d) [] c = 53 -> V53(d)}
    [] OTHER -> {}

NPASS == 14
RECURSIVE FirstFailing(_, _)
FirstFailing(d, p) == IF p > NPASS THEN -1 ELSE IF PassCodes(d, p) # {} THEN p ELSE FirstFailing(d, p + 1)

(* passes after a failing pass may not even be evaluable on an ill-formed description; *)
(* only the passes up to the first failing one are consulted                          *)
Verdict(d) ==
  LET p == FirstFailing(d, 0)
  IN IF p < 0 THEN [accepted |-> TRUE, pass |-> -1, codes |-> {}]
     ELSE [accepted |-> FALSE, pass |-> p, codes |-> PassCodes(d, p)]

WellFormed(d) == Verdict(d).accepted

=============================================================================
