SPECIFICATION Spec
INVARIANT Validate
CHECK_DEADLOCK FALSE
