SPECIFICATION Spec
INVARIANT Emit
INVARIANT SuffixInv
INVARIANT ReencodeInv
INVARIANT ClassInv
CHECK_DEADLOCK FALSE
INVARIANT EnumInv
INVARIANT UpDownInv
INVARIANT SpecializeInv
INVARIANT DualityInv
INVARIANT SizeSoundInv
INVARIANT SizeAgreeInv
