------------------------------- MODULE PdlDev -------------------------------
(***************************************************************************)
(* Named deviations of the implementation, as predicates over accepted,    *)
(* group-inlined descriptions.                                             *)
(*                                                                         *)
(* Every construct below is one on which a backend is already known to     *)
(* break a property; each is recorded in /verif/known_findings.json with   *)
(* the kit description that exhibits it.  The builder machine (PdlBuild)   *)
(* writes thousands of descriptions under fresh names; handing one that    *)
(* contains such a construct to that backend would only re-report the      *)
(* recorded finding under a new name.  XClean(d) is therefore "inside the  *)
(* backend's supported class and free of the constructs of its recorded    *)
(* findings"; the kit keeps exercising the findings themselves, so a       *)
(* finding that gets repaired shows up there.                              *)
(***************************************************************************)
EXTENDS PdlSupport

ArrFields(d, P(_, _, _)) == AnyField(d, LAMBDA decl, j, f : f.kind = "array" /\ P(decl, j, f))

ElemIsKind(d, f, ks) == f.type # "" /\ HasDecl(d, f.type) /\ DeclOf(d, f.type).kind \in ks

(* an unsized payload followed (anywhere later in the declaration) by a padded array *)
Dev_PayloadThenPaddedArray(d) ==
  \E i \in PacketLike(d) :
    LET x == d.decls[i] IN
    /\ HasPayload(x) /\ ~HasSizeField(x, TargetName(x.fields[PayloadIndex(x)]))
    /\ \E j \in 1..Len(x.fields) : j > PayloadIndex(x) /\ x.fields[j].kind = "padding"

(* ---- python ---- *)
Dev_PyRangeOnlyEnum(d) ==          \* IntEnum without members
  \E i \in 1..Len(d.decls) : d.decls[i].kind = "enum" /\ \A t \in 1..Len(d.decls[i].tags) : d.decls[i].tags[t].k # "value"
Dev_PyDerivedStructAsType(d) ==    \* D.parse(span) of a derived struct
  AnyField(d, LAMBDA decl, j, f : f.kind \in {"typedef", "array"} /\ f.type # "" /\ HasDecl(d, f.type)
                                    /\ DeclOf(d, f.type).kind = "struct" /\ DeclOf(d, f.type).parent # "")
Dev_SizeModifier(d) ==             \* size < modifier accepted
  AnyField(d, LAMBDA decl, j, f : f.mod > 0)

Dev_PySplitReservedChunk(d) ==      \* reserved-only chunks (adjacent reserved fields, or a reserved field of whole octets) may be skipped unchecked
  \/ \E i \in PacketLike(d) : \E j \in 1..(Len(d.decls[i].fields) - 1) :
        d.decls[i].fields[j].kind = "reserved" /\ d.decls[i].fields[j + 1].kind = "reserved"
  \/ \E i \in PacketLike(d) : \E j \in 1..Len(d.decls[i].fields) :
        d.decls[i].fields[j].kind = "reserved" /\ d.decls[i].fields[j].width % 8 = 0

PyClean(d) ==
  /\ PySupported(d)
  /\ ~Dev_PyRangeOnlyEnum(d) /\ ~Dev_PyDerivedStructAsType(d) /\ ~Dev_SizeModifier(d) /\ ~Dev_PayloadThenPaddedArray(d)
  /\ ~Dev_PySplitReservedChunk(d)

(* ---- c++ ---- *)
Dev_CxxLazyElements(d) ==          \* enum / struct elements are validated lazily, in the getter
  ArrFields(d, LAMBDA decl, j, f : ElemIsKind(d, f, {"enum", "struct"}))
Dev_CxxInheritance(d) ==           \* child views ignore constraints; child builders mis-order / mis-size
  \E i \in PacketLike(d) : d.decls[i].parent # ""
Dev_CxxStructWithPayload(d) ==     \* does not compile
  \E i \in PacketLike(d) : d.decls[i].kind = "struct" /\ HasPayload(d.decls[i])
Dev_CxxEmptyPacket(d) == \E i \in PacketLike(d) : d.decls[i].fields = <<>>
Dev_CxxPaddedUnknownArray(d) ==    \* an array without size or count followed by padding takes the whole span
  \E i \in PacketLike(d) : \E j \in 1..Len(d.decls[i].fields) :
     LET x == d.decls[i]  f == x.fields[j] IN
     f.kind = "array" /\ f.count < 0 /\ ~HasSizeField(x, f.id) /\ ~HasCountField(x, f.id) /\ PaddingAfter(x, j) >= 0
Dev_CxxPaddingTooSmall(d) ==        \* a static array larger than its padding is parsed in full (the padding size is ignored)
  \E i \in PacketLike(d) : \E j \in 1..Len(d.decls[i].fields) :
     LET x == d.decls[i]  f == x.fields[j] IN
     f.kind = "array" /\ f.count >= 0 /\ PaddingAfter(x, j) >= 0 /\ ElemStaticOctets(d, f) > 0
       /\ f.count * ElemStaticOctets(d, f) > PaddingAfter(x, j)
Dev_CxxLeadingRangeTag(d) ==       \* `R` is not a member of the generated enum
  \E i \in 1..Len(d.decls) : d.decls[i].kind = "enum" /\ \E t \in 1..Len(d.decls[i].tags) : d.decls[i].tags[t].k = "range"

CxxClean(d) ==
  /\ CxxSupported(d)
  /\ ~Dev_CxxLazyElements(d) /\ ~Dev_CxxInheritance(d) /\ ~Dev_CxxStructWithPayload(d) /\ ~Dev_CxxEmptyPacket(d)
  /\ ~Dev_CxxPaddedUnknownArray(d) /\ ~Dev_CxxPaddingTooSmall(d) /\ ~Dev_PayloadThenPaddedArray(d) /\ ~Dev_SizeModifier(d) /\ ~Dev_CxxLeadingRangeTag(d)

(* ---- java ---- *)
Dev_JavaWideGroup(d) == MaxGroupWidth(d) > 32          \* int arithmetic for groups wider than 32 bits
Dev_JavaUnknownStructElements(d) ==
  ArrFields(d, LAMBDA decl, j, f : ElemIsKind(d, f, {"struct"}) /\ StaticBits(d, f.type) < 0)
Dev_JavaBigLiteral(d) ==                               \* literals >= 2^31 do not compile
  \/ \E i \in 1..Len(d.decls) : d.decls[i].kind = "enum" /\ d.decls[i].width > 31
  \/ AnyField(d, LAMBDA decl, j, f : f.kind = "fixed" /\ (f.width > 31 \/ f.width = 1))
  \/ \E i \in PacketLike(d) : \E c \in 1..Len(d.decls[i].cons) : Len(d.decls[i].cons[c].v) > 3

JavaClean(d) ==
  /\ JavaSupported(d)
  /\ ~Dev_JavaWideGroup(d) /\ ~Dev_JavaUnknownStructElements(d) /\ ~Dev_JavaBigLiteral(d) /\ ~Dev_SizeModifier(d)

=============================================================================
