SPECIFICATION Spec
INVARIANT Emit
INVARIANT BaseWellFormed
INVARIANT EditViolates
INVARIANT OkStaysOk
INVARIANT PermInvariant
INVARIANT GroupInvariant
CHECK_DEADLOCK FALSE
