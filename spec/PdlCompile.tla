----------------------------- MODULE PdlCompile -----------------------------
(***************************************************************************)
(* The compiler as a process (properties C10, C11, and the "no ill-formed  *)
(* description reaches a backend" clause of C08).                          *)
(*                                                                         *)
(*   src --Parse--> parsed | parse_diag                                    *)
(*   parsed --Analyze--> analyzed | analysis_diag                          *)
(*   analyzed --Generate(b)--> analyzed, with `gen` recording b            *)
(*   Generate(b) then TargetCompile(b)                                     *)
(*                                                                         *)
(* Every stage ends in a value or a diagnostic.  There is no action for a  *)
(* panic, an abort, a stack overflow, a timeout or a target-compiler       *)
(* error: an observed run containing one is not a behaviour of this        *)
(* machine.  `memo` is the determinism monitor: an output digest may be    *)
(* recorded for a key (source, file name, options, backend, front end)     *)
(* only if it equals the digest already recorded for that key.             *)
(***************************************************************************)
EXTENDS Naturals, Sequences, FiniteSets, TLC

Backends == {"json", "rust", "python", "cxx", "java"}

VARIABLES stage, gen, compiled, memo
cvars == <<stage, gen, compiled, memo>>

CInit == stage = "src" /\ gen = {} /\ compiled = {} /\ memo = [x \in {} |-> ""]

Parse(ok) ==
  /\ stage = "src"
  /\ stage' = IF ok THEN "parsed" ELSE "parse_diag"
  /\ UNCHANGED <<gen, compiled, memo>>

Analyze(ok) ==
  /\ stage = "parsed"
  /\ stage' = IF ok THEN "analyzed" ELSE "analysis_diag"
  /\ UNCHANGED <<gen, compiled, memo>>

(* the json backend serializes the *parsed* file; every other backend      *)
(* needs the analyzed file                                                 *)
Generate(b) ==
  /\ IF b = "json" THEN stage \in {"parsed", "analyzed", "analysis_diag"} ELSE stage = "analyzed"
  /\ gen' = gen \cup {b}
  /\ UNCHANGED <<stage, compiled, memo>>

TargetCompile(b) ==
  /\ b \in gen
  /\ compiled' = compiled \cup {b}
  /\ UNCHANGED <<stage, gen, memo>>

Output(key, digest) ==
  /\ (IF key \in DOMAIN memo THEN memo[key] = digest ELSE TRUE)
  /\ memo' = (key :> digest) @@ memo
  /\ UNCHANGED <<stage, gen, compiled>>

NewRequest ==
  /\ stage' = "src" /\ gen' = {} /\ compiled' = {}
  /\ UNCHANGED memo

CNext ==
  \/ \E ok \in BOOLEAN : Parse(ok) \/ Analyze(ok)
  \/ \E b \in Backends : Generate(b) \/ TargetCompile(b)
  \/ NewRequest

(* design-level properties, checked by MC_Compile *)
TypeOK ==
  /\ stage \in {"src", "parsed", "parse_diag", "analyzed", "analysis_diag"}
  /\ gen \subseteq Backends /\ compiled \subseteq gen

(* no description the analyzer rejected (or that did not parse) is handed to a code generator *)
NoIllFormedReachesBackend ==
  (gen \ {"json"}) # {} => stage = "analyzed"

=============================================================================
