----------------------------- MODULE PdlSupport -----------------------------
(***************************************************************************)
(* Supported-construct predicates of the four backends, transcribed from   *)
(* the repository's own exclusion lists (tests/run_*_generator_tests.sh),  *)
(* the generated-code guides and the backends' documented todo!() arms.    *)
(* A check never asserts anything about a (description, backend) pair      *)
(* outside its predicate.  They are predicates over *analyzer-accepted*    *)
(* descriptions after group inlining.                                      *)
(***************************************************************************)
EXTENDS PdlInherit

PacketLike(d) == {i \in 1..Len(d.decls) : d.decls[i].kind \in {"packet", "struct"}}

AnyField(d, P(_, _, _)) ==
  \E i \in PacketLike(d) : \E j \in 1..Len(d.decls[i].fields) : P(d.decls[i], j, d.decls[i].fields[j])

AllFieldsSat(d, P(_, _, _)) ==
  \A i \in PacketLike(d) : \A j \in 1..Len(d.decls[i].fields) : P(d.decls[i], j, d.decls[i].fields[j])

(* widths of the bit-field groups of a declaration (closed at the first    *)
(* octet boundary, App. A.1)                                               *)
RECURSIVE GroupWidthsFrom(_, _, _, _)
GroupWidthsFrom(d, decl, i, acc) ==
  IF i > Len(decl.fields) THEN (IF acc = 0 THEN {} ELSE {acc})
  ELSE LET f == decl.fields[i] IN
       IF IsBitfield(d, f)
       THEN LET a2 == acc + BitWidth(d, f) IN
            IF a2 % 8 = 0 /\ a2 > 0 THEN {a2} \cup GroupWidthsFrom(d, decl, i + 1, 0)
            ELSE GroupWidthsFrom(d, decl, i + 1, a2)
       ELSE (IF acc = 0 THEN {} ELSE {acc}) \cup GroupWidthsFrom(d, decl, i + 1, 0)

MaxGroupWidth(d) ==
  LET ws == UNION {GroupWidthsFrom(d, d.decls[i], 1, 0) : i \in PacketLike(d)}
  IN IF ws = {} THEN 0 ELSE CHOOSE w \in ws : \A v \in ws : v <= w

(* the extent field of an array / payload precedes it *)
ExtentBefore(decl, j, f) ==
  LET name == TargetName(f)
  IN \A k \in 1..Len(decl.fields) :
       (decl.fields[k].kind \in {"size", "count", "elementsize"} /\ decl.fields[k].target = name) => k < j

(* constructs common to every backend *)
CommonSupported(d) ==
  /\ \A i \in 1..Len(d.decls) : d.decls[i].kind \notin {"checksum", "test"}
  /\ \A i \in 1..Len(d.decls) : d.decls[i].kind = "custom" => d.decls[i].width > 0
  /\ \A i \in 1..Len(d.decls) : d.decls[i].kind = "enum" => d.decls[i].width \in 1..64
  /\ MaxGroupWidth(d) <= 64
  /\ AllFieldsSat(d, LAMBDA decl, j, f :
       /\ f.kind # "checksum_start"
       /\ (f.kind \in {"scalar", "reserved", "fixed", "size", "count", "elementsize"} => f.width \in 1..64)
       /\ (f.kind = "array" /\ f.type = "" => f.width \in 1..64)       \* scalar elements are scalars: at most 64 bits
       /\ (f.kind \in {"array", "payload", "body"} => ExtentBefore(decl, j, f))
       /\ (IsPayloadField(f) /\ ~HasSizeField(decl, TargetName(f)) => TailOctets(d, decl, j) >= 0)
       /\ (f.kind = "array" => ElemStaticOctets(d, f) \notin {0, -2})
       /\ (f.kind = "count" => HasFieldNamed(decl, f.target) /\ FieldNamed(decl, f.target).kind = "array"))

(* Rust: no array size modifier (tests/run_rust_generator_tests.sh excludes it; "TODO size  *)
(* modifier" in decoder.rs), element-size only on struct elements                             *)
RustSupported(d) ==
  /\ CommonSupported(d)
  (* the rust backend refuses trees in which two children share constraints and size *)
  /\ \A i \in PacketLike(d) : Children(d, d.decls[i].id) # {} => Unambiguous(d, d.decls[i].id)
  /\ AllFieldsSat(d, LAMBDA decl, j, f : f.kind = "array" => f.mod < 0)

(* Python: no element-size fields (python-generated-code-guide, run_python_generator_tests) *)
PySupported(d) ==
  /\ CommonSupported(d)
  /\ \A i \in 1..Len(d.decls) : d.decls[i].kind # "custom"    \* needs a user-supplied module; not exercised
  /\ AllFieldsSat(d, LAMBDA decl, j, f : f.kind # "elementsize")

(* C++: no custom fields, no element size *)
CxxSupported(d) ==
  /\ CommonSupported(d)
  /\ \A i \in 1..Len(d.decls) : d.decls[i].kind # "custom"
  /\ \A i \in 1..Len(d.decls) : d.decls[i].kind = "struct" => d.decls[i].parent = ""   \* derived structs: not exercised
  /\ AllFieldsSat(d, LAMBDA decl, j, f : f.kind # "elementsize")

(* Java: no optional, padding, element-size, custom fields *)
JavaSupported(d) ==
  /\ CommonSupported(d)
  /\ \A i \in 1..Len(d.decls) : d.decls[i].kind # "custom"
  /\ \A i \in 1..Len(d.decls) : d.decls[i].kind = "struct" => d.decls[i].parent = ""   \* derived structs: a struct-typed
                                                    \* field is surfaced as its specialised child class; not compared
  (* no aliased children (java guide): a child without fields of its own *)
  /\ \A i \in PacketLike(d) : d.decls[i].parent # "" =>
         \E j \in 1..Len(d.decls[i].fields) : ~IsPayloadField(d.decls[i].fields[j])
  /\ AllFieldsSat(d, LAMBDA decl, j, f : f.kind \notin {"elementsize", "padding", "body"} /\ ~IsOptional(f))
  (* java guide: no constraints on >1st order ancestors *)
  /\ \A i \in PacketLike(d) : d.decls[i].parent # "" /\ HasDecl(d, d.decls[i].parent) =>
         \A c \in SeqToSet(d.decls[i].cons) :
            \E j \in 1..Len(DeclOf(d, d.decls[i].parent).fields) : DeclOf(d, d.decls[i].parent).fields[j].id = c.id

(* Round-trippable (C02).  The class is decided per value by the reference  *)
(* semantics itself: v is round-trippable iff DecodeFull(Encode(v)) = v in    *)
(* the specification (field `rt` of every encode vector).  Where the          *)
(* reference does not round-trip (an undelimited array that is not last, a    *)
(* padded array without size or count) nothing is demanded of the code.       *)

=============================================================================
