------------------------------ MODULE PdlSyntax ------------------------------
(***************************************************************************)
(* Concrete syntax of PDL (doc/reference.md "Tokens", grammar productions) *)
(* as a *printer with positions* (property C12).                           *)
(*                                                                         *)
(* Items(d) turns a description into the token stream of its source text,  *)
(* with markers that open and close every AST node that carries a source   *)
(* range (endianness declaration, declarations, fields, tags, constraints, *)
(* conditions).  The printer machine of MC_Syntax consumes the stream one  *)
(* token at a time, choosing nondeterministically the separator before it  *)
(* (spaces, tabs, LF, CR LF, line and block comments, nothing where the    *)
(* grammar needs nothing), the radix and case of every integer literal and *)
(* whether a list ends with a comma, while it tracks byte offset, line and *)
(* column - so the specification *predicts* the range of every node:       *)
(*   start  = position of the node's first token                          *)
(*   end    in [ end of its last token , start of the next token ]         *)
(* (a rule's span may absorb the blanks and comments that follow it; the   *)
(* property only demands that the range covers the node's text).           *)
(***************************************************************************)
EXTENDS PdlEnum

HEX == "0123456789abcdef"
HEXU == "0123456789ABCDEF"

(* ---- numbers as text ---- *)
RECURSIVE Div10(_, _, _)
(* long division of a limb sequence by 10, from the most significant limb: [q, r] *)
Div10(limbs, i, rem) ==
  IF i = 0 THEN [q |-> <<>>, r |-> rem]
  ELSE LET cur == rem * 256 + limbs[i]
           rest == Div10(limbs, i - 1, cur % 10)
       IN [q |-> Append(rest.q, cur \div 10), r |-> rest.r]

RECURSIVE DecStr(_)
DecStr(limbs) ==
  LET l == StripZeros(limbs) IN
  IF l = <<>> THEN "0"
  ELSE LET dm == Div10(l, Len(l), 0)
           q == StripZeros(dm.q)
           d == SubSeq(HEX, dm.r + 1, dm.r + 1)
       IN IF q = <<>> THEN d ELSE DecStr(q) \o d

RECURSIVE HexDigits(_, _, _)
HexDigits(limbs, i, alpha) ==     \* limbs i..1, two digits each
  IF i = 0 THEN ""
  ELSE SubSeq(alpha, (limbs[i] \div 16) + 1, (limbs[i] \div 16) + 1)
       \o SubSeq(alpha, (limbs[i] % 16) + 1, (limbs[i] % 16) + 1) \o HexDigits(limbs, i - 1, alpha)

HexStr(limbs, alpha) ==
  LET l == StripZeros(limbs) IN
  IF l = <<>> THEN "0"
  ELSE LET s == HexDigits(l, Len(l), alpha)
       IN IF SubSeq(s, 1, 1) = "0" THEN SubSeq(s, 2, Len(s)) ELSE s

(* radix styles: "dec", "hex" (0x, lower), "HEX" (0x, upper digits), "0X" (0X prefix) *)
IntText(limbs, style) ==
  CASE style = "dec" -> DecStr(limbs)
    [] style = "hex" -> "0x" \o HexStr(limbs, HEX)
    [] style = "HEX" -> "0x" \o HexStr(limbs, HEXU)
    [] style = "0X"  -> "0X" \o HexStr(limbs, HEXU)

NatLimbs(n) == StripZeros(<<n % 256, (n \div 256) % 256, (n \div 65536) % 256, (n \div 16777216) % 256>>)

(* ---- the item stream ---- *)
(* kinds: "kw" declaration keyword (must be followed by a blank), "word" other alphabetic token, *)
(* "id" identifier, "int" integer (l = limbs), "p" punctuation, "str" string literal,            *)
(* "mod" size modifier (+N, one atomic token)                                                     *)
Tok(k, s)   == [t |-> "tok", k |-> k, s |-> s, l |-> <<>>, path |-> <<>>]
IntL(limbs) == [t |-> "tok", k |-> "int", s |-> "", l |-> limbs, path |-> <<>>]
IntN(n)     == IntL(NatLimbs(n))
Open(path)  == [t |-> "open", k |-> "", s |-> "", l |-> <<>>, path |-> path]
Close(path) == [t |-> "close", k |-> "", s |-> "", l |-> <<>>, path |-> path]
OptComma    == [t |-> "optcomma", k |-> "", s |-> "", l |-> <<>>, path |-> <<>>]

Node(path, items) == <<Open(path)>> \o items \o <<Close(path)>>

ConsItems(path, c) ==
  Node(path, <<Tok("id", c.id), Tok("p", "=")>> \o (IF c.tag # "" THEN <<Tok("id", c.tag)>> ELSE <<IntL(c.v)>>))

RECURSIVE JoinComma(_)
JoinComma(parts) ==
  IF parts = <<>> THEN <<>>
  ELSE Head(parts) \o (IF Len(parts) > 1 THEN <<Tok("p", ",")>> ELSE <<>>) \o JoinComma(Tail(parts))

(* items of a list joined by commas; k-th element produced by F(k) *)
Sep(n, k0, F(_)) == JoinComma([k \in 1..n |-> F(k)])

ConsList(path, cs) == Sep(Len(cs), 1, LAMBDA k : ConsItems(path \o <<"cons", k>>, cs[k]))

TagItems(path, t) ==
  Node(path,
    CASE t.k = "value" -> <<Tok("id", t.id), Tok("p", "="), IntL(t.v)>>
      [] t.k = "other" -> <<Tok("id", t.id), Tok("p", "="), Tok("p", "..")>>
      [] t.k = "range" ->
           <<Tok("id", t.id), Tok("p", "="), IntL(t.lo), Tok("p", ".."), IntL(t.hi)>>
           \o (IF t.sub = <<>> THEN <<>>
               ELSE <<Tok("p", "{")>>
                    \o Sep(Len(t.sub), 1, LAMBDA k : Node(path \o <<"sub", k>>,
                                                         <<Tok("id", t.sub[k].id), Tok("p", "="), IntL(t.sub[k].v)>>))
                    \o <<OptComma, Tok("p", "}")>>))

FieldBody(path, f) ==
  CASE f.kind = "scalar" -> <<Tok("id", f.id), Tok("p", ":"), IntN(f.width)>>
    [] f.kind = "reserved" -> <<Tok("word", "_reserved_"), Tok("p", ":"), IntN(f.width)>>
    [] f.kind = "fixed" -> <<Tok("word", "_fixed_"), Tok("p", "="), IntL(f.v), Tok("p", ":"), IntN(f.width)>>
    [] f.kind = "fixedenum" -> <<Tok("word", "_fixed_"), Tok("p", "="), Tok("id", f.tag), Tok("p", ":"), Tok("id", f.type)>>
    [] f.kind \in {"size", "count", "elementsize"} ->
         <<Tok("word", "_" \o f.kind \o "_"), Tok("p", "("), Tok("id", f.target), Tok("p", ")"), Tok("p", ":"), IntN(f.width)>>
    [] f.kind = "payload" ->
         <<Tok("word", "_payload_")>>
         \o (IF f.mod >= 0 THEN <<Tok("p", ":"), Tok("p", "["), Tok("mod", "+" \o DecStr(NatLimbs(f.mod))), Tok("p", "]")>> ELSE <<>>)
    [] f.kind = "body" -> <<Tok("word", "_body_")>>
    [] f.kind = "array" ->
         <<Tok("id", f.id), Tok("p", ":")>>
         \o (IF f.type # "" THEN <<Tok("id", f.type)>> ELSE <<IntN(f.width)>>)
         \o <<Tok("p", "[")>>
         \o (IF f.count >= 0 THEN <<IntN(f.count)>>
             ELSE IF f.mod >= 0 THEN <<Tok("mod", "+" \o DecStr(NatLimbs(f.mod)))>> ELSE <<>>)
         \o <<Tok("p", "]")>>
    [] f.kind = "typedef" -> <<Tok("id", f.id), Tok("p", ":"), Tok("id", f.type)>>
    [] f.kind = "padding" -> <<Tok("word", "_padding_"), Tok("p", "["), IntN(f.size), Tok("p", "]")>>
    [] f.kind = "checksum_start" -> <<Tok("word", "_checksum_start_"), Tok("p", "("), Tok("id", f.target), Tok("p", ")")>>
    [] f.kind = "group" ->
         <<Tok("id", f.type)>>
         \o (IF f.cons = <<>> THEN <<>> ELSE <<Tok("p", "{")>> \o ConsList(path, f.cons) \o <<Tok("p", "}")>>)

FieldItems(path, f) ==
  Node(path,
       FieldBody(path, f)
       \o (IF f.cond = "" THEN <<>>
           ELSE <<Tok("word", "if")>>
                \o Node(path \o <<"cond">>, <<Tok("id", f.cond), Tok("p", "="), IntN(f.condv)>>)))

FieldList(path, fs) ==
  IF fs = <<>> THEN <<>>
  ELSE Sep(Len(fs), 1, LAMBDA k : FieldItems(path \o <<"field", k>>, fs[k])) \o <<OptComma>>

DeclItems(i, x) ==
  LET path == <<"decl", i>> IN
  Node(path,
    CASE x.kind = "enum" ->
           <<Tok("kw", "enum"), Tok("id", x.id), Tok("p", ":"), IntN(x.width), Tok("p", "{")>>
           \o Sep(Len(x.tags), 1, LAMBDA k : TagItems(path \o <<"tag", k>>, x.tags[k]))
           \o <<OptComma, Tok("p", "}")>>
      [] x.kind \in {"packet", "struct"} ->
           <<Tok("kw", x.kind), Tok("id", x.id)>>
           \o (IF x.parent = "" THEN <<>>
               ELSE <<Tok("p", ":"), Tok("id", x.parent)>>
                    \o (IF x.cons = <<>> THEN <<>> ELSE <<Tok("p", "(")>> \o ConsList(path, x.cons) \o <<Tok("p", ")")>>))
           \o <<Tok("p", "{")>> \o FieldList(path, x.fields) \o <<Tok("p", "}")>>
      [] x.kind = "group" ->
           <<Tok("kw", "group"), Tok("id", x.id), Tok("p", "{")>> \o FieldList(path, x.fields) \o <<Tok("p", "}")>>
      [] x.kind = "custom" ->
           <<Tok("kw", "custom_field"), Tok("id", x.id)>>
           \o (IF x.width >= 0 THEN <<Tok("p", ":"), IntN(x.width)>> ELSE <<>>)
           \o <<Tok("str", "\"" \o x.fn \o "\"")>>
      [] x.kind = "checksum" ->
           <<Tok("kw", "checksum"), Tok("id", x.id), Tok("p", ":"), IntN(x.width), Tok("str", "\"" \o x.fn \o "\"")>>)

Items(d) ==
  Node(<<"endianness">>, <<Tok("kw", d.endian \o "_endian_packets")>>)
  \o Concat([i \in 1..Len(d.decls) |-> DeclItems(i, d.decls[i])])

(* ---- separators ---- *)
(* s: text, n: byte length, nl: line feeds, tail: bytes after the last line feed, blank: begins *)
(* with a blank; the comment it contains (if any): cm text, at byte coff of the separator, cn    *)
(* bytes long, with cnl line feeds inside and ctail bytes after its last line feed               *)
SepRec(s, n, nl, tail, blank, cm, coff, cn, cnl, ctail) ==
  [s |-> s, n |-> n, nl |-> nl, tail |-> tail, blank |-> blank, cm |-> cm, coff |-> coff, cn |-> cn,
   cnl |-> cnl, ctail |-> ctail]
NoSep == SepRec("", 0, 0, 0, FALSE, "", 0, 0, 0, 0)
Seps ==
  { NoSep,
    SepRec(" ", 1, 0, 1, TRUE, "", 0, 0, 0, 0), SepRec("\t", 1, 0, 1, TRUE, "", 0, 0, 0, 0),
    SepRec("\n", 1, 1, 0, TRUE, "", 0, 0, 0, 0), SepRec("\r\n", 2, 1, 0, TRUE, "", 0, 0, 0, 0),
    SepRec("  \n\t", 4, 1, 1, TRUE, "", 0, 0, 0, 0),
    SepRec("// c\n", 5, 1, 0, FALSE, "// c", 0, 4, 0, 4),
    SepRec(" // x y\n ", 9, 1, 1, TRUE, "// x y", 1, 6, 0, 6),
    SepRec("/* c */", 7, 0, 7, FALSE, "/* c */", 0, 7, 0, 7),
    SepRec(" /* a\nb */ ", 11, 1, 5, TRUE, "/* a\nb */", 1, 9, 1, 4),
    SepRec("/**/", 4, 0, 4, FALSE, "/**/", 0, 4, 0, 4),
    (* Ref (lexical rules): comments do not nest - a block comment ends at the first "*/", whatever it  *)
    (* contains; a line comment ends at the line feed, whatever it contains                             *)
    SepRec("/* a /* b */", 12, 0, 12, FALSE, "/* a /* b */", 0, 12, 0, 12),
    SepRec("/* // */", 8, 0, 8, FALSE, "/* // */", 0, 8, 0, 8),
    SepRec("/***/", 5, 0, 5, FALSE, "/***/", 0, 5, 0, 5),
    SepRec("// a /* b\n", 10, 1, 0, FALSE, "// a /* b", 0, 9, 0, 9),
    SepRec("//\n", 3, 1, 0, FALSE, "//", 0, 2, 0, 2) }

Wordy(k) == k \in {"kw", "word", "id", "int", "mod"}

(* may `sep` stand between a token of kind a and one of kind b? *)
SepAllowed(sep, a, b) ==
  /\ (a = "kw" => sep.blank)                      \* implementation: keyword rules end with a blank (Dev_KeywordNeedsBlank)
  /\ (sep.n = 0 => ~(Wordy(a) /\ Wordy(b)))       \* two word-like tokens need something between them
  /\ (sep.n = 0 => ~(a = "int" /\ b = "p"))       \* "1" ".." must not become "1." "."  - keep it simple: blank after ints
  /\ (sep.n = 0 => ~(a = "p" /\ b = "p"))         \* ".." "}" etc.: avoid gluing punctuation into other tokens ("/" "*")

=============================================================================
