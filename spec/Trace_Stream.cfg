SPECIFICATION Spec
INVARIANT SuffixInv
INVARIANT PrefixInv
INVARIANT Progress
CHECK_DEADLOCK FALSE
