----------------------------- MODULE PdlInherit -----------------------------
(***************************************************************************)
(* Inheritance: constraints, specialization, parent/child conversion       *)
(* (reference.md "Packet", "Constraints"; rust guide "specialize"; C06).   *)
(*                                                                         *)
(* A parent value p of type P is the value DecodeType yields for P: its    *)
(* visible fields and its payload octets.                                  *)
(*   Down(P, X, p)  - the X that p denotes, X a descendant of P: every     *)
(*                    level between P and X checks its own constraints     *)
(*                    against the fields seen so far (ConstraintValue),    *)
(*                    parses its fields from the payload of the level      *)
(*                    above and must consume it exactly (TrailingBytes).   *)
(*   Up(X, P, c)    - the P that c (of type X) denotes: constrained fields *)
(*                    carry their constant, the payload is the encoding of *)
(*                    the levels below P.                                  *)
(*   Candidates(P, p) - the children of P that p's field values (and,      *)
(*                    where children cannot be told apart by constraints,  *)
(*                    the payload length) identify.                        *)
(* Assumed (guide: "based on the constraints that are available"): a child *)
(* that nothing identifies - no constraint on a field visible in P in its  *)
(* whole subtree, and no size discrimination - is never a candidate.       *)
(***************************************************************************)
EXTENDS PdlStim

IndexIn(chain, id) == CHOOSE k \in 1..Len(chain) : chain[k].id = id

IsAncestor(d, P, X) == P # X /\ \E k \in 1..Len(Chain(d, X)) : Chain(d, X)[k].id = P

(* ------------------------------ Down ---------------------------------- *)
Down(d, P, X, p) ==
  LET chain == Chain(d, X)
      kp == IndexIn(chain, P)
      hasPl == Has(p, "payload")
      span == IF hasPl THEN Get(p, "payload").b ELSE <<>>
      vis == SelectSeq(Idx(Len(p.n)), LAMBDA i : p.n[i] # "payload")
      seenN == [j \in 1..Len(vis) |-> p.n[vis[j]]]
      seenI == [j \in 1..Len(vis) |-> p.c[vis[j]]]
      r == DecLevels(d, chain, kp + 1, span, <<seenN, seenI>>, 5)
      tb == IF ~r.halt /\ r.rest # <<>> THEN {"TrailingBytes"} ELSE {}
      allN == seenN \o r.names
      allI == seenI \o r.items
      vf == ValueFields(d, X)            \* canonical order: ancestors first, child fields in place
      names == [j \in 1..Len(vf) |-> vf[j].decl.fields[vf[j].i].id]
      items == [j \in 1..Len(vf) |->
                  IF \E i \in 1..Len(allN) : allN[i] = names[j]
                  THEN allI[CHOOSE i \in 1..Len(allN) : allN[i] = names[j]] ELSE NoneV]
      leaf == chain[Len(chain)]
  IN [faults |-> r.faults \cup tb,
      val |-> IF r.faults \cup tb # {} THEN NoneV
              ELSE IF HasPayload(leaf) THEN S(Append(names, "payload"), Append(items, B(r.pl)))
              ELSE S(names, items)]

(* ------------------------------- Up ----------------------------------- *)
Up(d, X, P, c) ==
  LET chain == Chain(d, X)
      kp == IndexIn(chain, P)
      leaf == chain[Len(chain)]
      val == WithConstants(d, X, c)
      pl0 == IF HasPayload(leaf) /\ Has(c, "payload") THEN Get(c, "payload").b ELSE <<>>
      below == EncLevels(d, chain, Len(chain), kp + 1, val, pl0, <<>>, EmptyFn, 5)
      pf == ValueFields(d, P)
      names == [k \in 1..Len(pf) |-> pf[k].decl.fields[pf[k].i].id]
      items == [k \in 1..Len(pf) |-> IF Has(val, names[k]) THEN Get(val, names[k]) ELSE NoneV]
  IN [faults |-> below.faults,
      val |-> IF HasPayload(chain[kp]) THEN S(Append(names, "payload"), Append(items, B(below.bytes)))
              ELSE S(names, items)]

(* --------------------------- specialization ---------------------------- *)
VisibleIds(d, P) ==
  {ValueFields(d, P)[k].decl.fields[ValueFields(d, P)[k].i].id : k \in 1..Len(ValueFields(d, P))}

(* constraints accumulated from X down to D, those on fields visible in P, as (id, limbs) pairs *)
RECURSIVE ConsFromTo(_, _, _)
ConsFromTo(chain, k, n) == IF k > n THEN <<>> ELSE chain[k].cons \o ConsFromTo(chain, k + 1, n)

CasePairs(d, P, X, D) ==
  LET chain == Chain(d, D)
      cs == ConsFromTo(chain, IndexIn(chain, X), Len(chain))
  IN {<<cs[i].id, StripZeros(ConsLimbs(d, chain, cs[i]))>> : i \in {j \in 1..Len(cs) : cs[j].id \in VisibleIds(d, P)}}

(* octets the fields of levels X..D occupy inside P's payload, or -1 *)
RECURSIVE LevelOctets(_, _, _, _)
LevelOctets(d, chain, k, n) ==
  IF k > n THEN 0
  ELSE LET own == SumFieldBits(d, chain[k], 1, 8)
           rest == LevelOctets(d, chain, k + 1, n)
       IN IF own < 0 \/ rest < 0 \/ own % 8 # 0 THEN -1 ELSE own \div 8 + rest

CaseSize(d, P, X, D) ==
  LET chain == Chain(d, D)
  IN IF HasPayload(chain[Len(chain)]) THEN -1 ELSE LevelOctets(d, chain, IndexIn(chain, X), Len(chain))

Subtree(d, X) == {X} \cup Descendants(d, X, 6)

Cases(d, P, X) == {[cons |-> CasePairs(d, P, X, D), size |-> CaseSize(d, P, X, D)] : D \in Subtree(d, X)}

(* sizes are consulted only when constraints alone cannot tell two children apart *)
NeedSize(d, P) ==
  \E X \in Children(d, P), Y \in Children(d, P) :
     X # Y /\ \E cx \in Cases(d, P, X), cy \in Cases(d, P, Y) : cx.cons = cy.cons

(* the rust backend refuses trees in which two children share constraints *and* size *)
Unambiguous(d, P) ==
  \A X \in Children(d, P), Y \in Children(d, P) :
     X # Y => \A cx \in Cases(d, P, X), cy \in Cases(d, P, Y) : cx.cons # cy.cons \/ cx.size # cy.size

FieldLimbs(p, id) == IF Has(p, id) /\ Get(p, id).t = "u" THEN Get(p, id).b ELSE <<256>>

CaseMatches(d, P, c, p) ==
  LET ns == NeedSize(d, P)
      plen == IF Has(p, "payload") THEN Len(Get(p, "payload").b) ELSE 0
      sized == ns /\ c.size >= 0
  IN /\ \A pr \in c.cons : FieldLimbs(p, pr[1]) = pr[2]
     /\ (sized => plen = c.size)
     /\ (c.cons # {} \/ sized)

Candidates(d, P, p) == {X \in Children(d, P) : \E c \in Cases(d, P, X) : CaseMatches(d, P, c, p)}

(* A child that no constraint identifies and whose size is not constant (it has a payload, a dynamic array, ...): the  *)
(* property's "match the constraints of X" holds vacuously for it and no payload length singles it out.  Where sizes   *)
(* are consulted at all it may serve as the catch-all (the generated Rust does so when its size is delimited, not when *)
(* it is unknown); the specification admits both answers.                                                              *)
CatchAll(d, P, p) ==
  {X \in Children(d, P) : NeedSize(d, P) /\ \E c \in Cases(d, P, X) : c.cons = {} /\ c.size < 0}

(* what specialize() may answer: "none", or for a candidate X its Down result *)
SpecializeOutcomes(d, P, p) ==
  LET cand == Candidates(d, P, p)
      opt == CatchAll(d, P, p) \ cand
      out(X) == [child |-> X, faults |-> Down(d, P, X, p).faults, val |-> Down(d, P, X, p).val]
  IN (IF cand = {} THEN {[child |-> "", faults |-> {}, val |-> NoneV]} ELSE {out(X) : X \in cand})
     \cup (IF cand = {} THEN {out(X) : X \in opt} ELSE {})

(* ------------------------- Python API binding -------------------------- *)
(* Guide (python): a packet is parsed from its root type; the result is the *)
(* most derived declaration whose constraints hold and whose fields parse   *)
(* (children tried in declaration order); if a matching child fails to      *)
(* parse, the nearest ancestor that parses is returned.                     *)
(* Guide/binding: a child all of whose fields are payload/body (or that has  *)
(* none) is an alias: it is transparent, its own children are tried in its   *)
(* place and it is never itself the result.                                  *)
IsAliasDecl(decl) == \A i \in 1..Len(decl.fields) : IsPayloadField(decl.fields[i])

RECURSIVE SpecializedChildren(_, _, _)
SpecializedChildren(d, T, fuel) ==
  IF fuel = 0 THEN <<>>
  ELSE LET kids == ChildSeq(d, T)
       IN Concat([k \in 1..Len(kids) |->
                    IF IsAliasDecl(DeclOf(d, kids[k])) THEN SpecializedChildren(d, kids[k], fuel - 1)
                    ELSE <<kids[k]>>])

RECURSIVE PyDescend(_, _, _, _)
PyDescend(d, T, val, fuel) ==
  LET kids == SpecializedChildren(d, T, 6)
      ok == SelectSeq(kids, LAMBDA X : Down(d, T, X, val).faults = {})
  IN IF fuel = 0 \/ ok = <<>> THEN [cls |-> T, val |-> val]
     ELSE PyDescend(d, ok[1], Down(d, T, ok[1], val).val, fuel - 1)

PyParse(d, R, b) ==
  LET r == DecodeFull(d, R, b)
  IN IF r.faults # {} THEN [faults |-> r.faults, cls |-> "", val |-> NoneV]
     ELSE LET x == PyDescend(d, R, r.val, 6) IN [faults |-> {}, cls |-> x.cls, val |-> x.val]

(* -------------------------- Java API binding --------------------------- *)
(* Guide (java): fromBytes on a parent dispatches to the child whose        *)
(* constraints match (children without constraints are told apart by their  *)
(* constant size), else to the fallback child that keeps the payload.  The  *)
(* first match in declaration order wins and an exception ends the parse,   *)
(* so the admissible outcomes are a *set*: any child that matches and       *)
(* parses (recursively); when none does, the fallback - or a rejection if   *)
(* some child's constraints hold but its fields do not parse, or the parent *)
(* has a _body_ (no fallback class).                                        *)
ConsHold(d, X, val) ==
  \A c \in SeqToSet(DeclOf(d, X).cons) : ~ConsViolated(d, Chain(d, X), c, val.n, val.c)

RECURSIVE JavaDescend(_, _, _, _)
JavaDescend(d, T, val, fuel) ==
  LET kids == Children(d, T)
      good == {X \in kids : Down(d, T, X, val).faults = {}}
      cm == {X \in kids : DeclOf(d, X).cons # <<>> /\ ConsHold(d, X, val)}
      decl == DeclOf(d, T)
      bodyOnly == HasPayload(decl) /\ decl.fields[PayloadIndex(decl)].kind = "body"
      here == [cls |-> T, val |-> val, reject |-> FALSE]
      rej == [cls |-> "", val |-> NoneV, reject |-> TRUE]
  IN IF fuel = 0 \/ kids = {} THEN {here}
     ELSE IF good # {} THEN UNION {JavaDescend(d, X, Down(d, T, X, val).val, fuel - 1) : X \in good}
     ELSE (IF bodyOnly THEN {} ELSE {here}) \cup (IF cm # {} \/ bodyOnly THEN {rej} ELSE {})

JavaOutcomes(d, R, b) ==
  LET r == DecodeFull(d, R, b)
  IN IF r.faults # {} THEN {[cls |-> "", val |-> NoneV, reject |-> TRUE]}
     ELSE JavaDescend(d, R, r.val, 6)

=============================================================================
