------------------------------ MODULE PdlBits ------------------------------
(***************************************************************************)
(* Bit-level arithmetic for the PDL reference semantics.                   *)
(*                                                                         *)
(* TLC integers are 32-bit Java ints while PDL scalars are up to 64 bits   *)
(* wide.  Every wire-level scalar is therefore a *bit sequence*, least     *)
(* significant bit first, inside the specification, and a little-endian    *)
(* *limb sequence* (Seq(0..255), trailing zero limbs stripped, so that the *)
(* representation of a number is unique) at the JSON boundary.             *)
(* Sizes, counts and offsets are ordinary naturals; a quantity read from   *)
(* the wire is converted with NatCapped, which saturates at CAP - far      *)
(* above any input length that is ever explored - so no arithmetic ever    *)
(* leaves the 32-bit range and no wire value is ever reduced modulo a      *)
(* machine word (Appendix A.14 of DESIGN.md).                              *)
(*                                                                         *)
(* No shift or mask appears anywhere: packing is concatenation of bit      *)
(* sequences and cutting into octets, which is what doc/reference.md says  *)
(* and is independent of the four implementations in the repository.       *)
(***************************************************************************)
EXTENDS Integers, Sequences, FiniteSets

CAP == 1048576          \* 2^20: saturation point for sizes/counts read from the wire

Min(a, b) == IF a < b THEN a ELSE b
Max(a, b) == IF a < b THEN b ELSE a

Rev(s) == [i \in 1..Len(s) |-> s[Len(s) + 1 - i]]

Take(s, n) == SubSeq(s, 1, Min(n, Len(s)))
Drop(s, n) == SubSeq(s, Min(n, Len(s)) + 1, Len(s))

RECURSIVE Concat(_)
Concat(ss) == IF ss = <<>> THEN <<>> ELSE Head(ss) \o Concat(Tail(ss))

Zeros(n) == [i \in 1..n |-> 0]

(* bit k (1-based, LSB = 1) of a natural below 2^31 *)
BitOfNat(n, k) == IF k > 31 THEN 0 ELSE (n \div (2 ^ (k - 1))) % 2

BitsOfNat(n, w) == [k \in 1..w |-> BitOfNat(n, k)]

(* bits (LSB first) of a byte sequence read as a little-endian number *)
BitsOfBytes(bs) ==
  [k \in 1..(8 * Len(bs)) |-> (bs[((k - 1) \div 8) + 1] \div (2 ^ ((k - 1) % 8))) % 2]

(* inverse; Len(bits) must be a multiple of 8 *)
BytesOfBits(bits) ==
  [j \in 1..(Len(bits) \div 8) |->
       LET o == 8 * (j - 1) IN
       bits[o + 1] + 2 * bits[o + 2] + 4 * bits[o + 3] + 8 * bits[o + 4]
         + 16 * bits[o + 5] + 32 * bits[o + 6] + 64 * bits[o + 7] + 128 * bits[o + 8]]

RECURSIVE StripZeros(_)
StripZeros(s) ==
  IF s = <<>> THEN s
  ELSE IF s[Len(s)] = 0 THEN StripZeros(SubSeq(s, 1, Len(s) - 1)) ELSE s

(* limbs: canonical little-endian base-256 representation *)
LimbsOfBits(bits) ==
  LET pad == (8 - (Len(bits) % 8)) % 8
  IN StripZeros(BytesOfBits(bits \o Zeros(pad)))

(* the low w bits of the number denoted by a limb sequence *)
BitsOfLimbs(limbs, w) ==
  [k \in 1..w |->
     IF k <= 8 * Len(limbs)
     THEN (limbs[((k - 1) \div 8) + 1] \div (2 ^ ((k - 1) % 8))) % 2
     ELSE 0]

(* does the number denoted by limbs fit in w bits? *)
FitsLimbs(limbs, w) ==
  \A k \in (w + 1)..(8 * Len(limbs)) :
      (limbs[((k - 1) \div 8) + 1] \div (2 ^ ((k - 1) % 8))) % 2 = 0

FitsBits(bits, w) == \A k \in (w + 1)..Len(bits) : bits[k] = 0

RECURSIVE SumLow(_, _)
SumLow(bits, k) ==       \* value of bits[1..k], k <= 20
  IF k = 0 THEN 0 ELSE bits[k] * (2 ^ (k - 1)) + SumLow(bits, k - 1)

(* numeric value of a bit sequence, saturating at CAP *)
NatCapped(bits) ==
  IF \E k \in 21..Len(bits) : bits[k] = 1 THEN CAP
  ELSE SumLow(bits, Min(20, Len(bits)))

NatOfLimbsCapped(limbs) == NatCapped(BitsOfLimbs(limbs, 8 * Len(limbs)))

(* unsigned comparison of two bit sequences of equal length, MSB down *)
RECURSIVE LeqFrom(_, _, _)
LeqFrom(a, b, k) ==
  IF k = 0 THEN TRUE
  ELSE IF a[k] < b[k] THEN TRUE
  ELSE IF a[k] > b[k] THEN FALSE
  ELSE LeqFrom(a, b, k - 1)

LeqBits(a, b) == LeqFrom(a, b, Len(a))       \* requires Len(a) = Len(b)

(* all-ones, and a single one at position k (value 2^(k-1)) *)
Ones(w) == [i \in 1..w |-> 1]
OneHot(w, k) == [i \in 1..w |-> IF i = k THEN 1 ELSE 0]

(* bits + 1 and bits - 1 modulo 2^w (used only to build stimuli) *)
RECURSIVE IncFrom(_, _)
IncFrom(bits, k) ==
  IF k > Len(bits) THEN bits
  ELSE IF bits[k] = 0 THEN [bits EXCEPT ![k] = 1]
  ELSE IncFrom([bits EXCEPT ![k] = 0], k + 1)
IncBits(bits) == IncFrom(bits, 1)

RECURSIVE DecFrom(_, _)
DecFrom(bits, k) ==
  IF k > Len(bits) THEN bits
  ELSE IF bits[k] = 1 THEN [bits EXCEPT ![k] = 0]
  ELSE DecFrom([bits EXCEPT ![k] = 1], k + 1)
DecBits(bits) == DecFrom(bits, 1)

(* pack: the reference manual's sentence.  A group of bit-fields whose     *)
(* widths sum to a multiple of 8 is the concatenation of their bits, LSB   *)
(* first, cut into octets; the octets are written in reverse order iff the *)
(* file is big-endian.                                                     *)
PackGroup(bits, big) ==
  LET bytes == BytesOfBits(bits) IN IF big THEN Rev(bytes) ELSE bytes

UnpackGroup(bytes, big) == BitsOfBytes(IF big THEN Rev(bytes) ELSE bytes)

=============================================================================
