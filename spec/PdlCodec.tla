------------------------------ MODULE PdlCodec ------------------------------
(***************************************************************************)
(* Wire semantics of PDL: the reference decoder and encoder.               *)
(*                                                                         *)
(* Both are written as *step functions over an explicit state record*, one *)
(* step per field of a declaration - the shape of the generated code       *)
(* (guard, read, bind) - so that the very same DecField / EncField drive   *)
(*   (a) the model-checked machines of MC_Codec (one TLC state per field), *)
(*   (b) the big-step DecodeType / EncodeType used to produce replay       *)
(*       vectors and to judge recorded traces.                             *)
(* Nested scopes (struct-typed fields, array elements, the child's view of *)
(* the parent payload) are big steps inside a field step.                  *)
(*                                                                         *)
(* Values are uniform trees  [t, b, c, n]:                                 *)
(*   t = "u": unsigned scalar / enum / sized custom field, b = limbs       *)
(*   t = "b": raw octets (payload), b = the octets                         *)
(*   t = "a": array, c = elements                                          *)
(*   t = "s": packet/struct, n = field names, c = field values             *)
(*   t = "n": absent optional field                                        *)
(*                                                                         *)
(* Faults.  The decoder does not stop at the first non-structural fault    *)
(* (fixed value, enum value, constraint value): it records it in `faults`  *)
(* and goes on, and when a structural step cannot proceed it records every *)
(* guard of that step that fails, then halts.  The input is accepted iff   *)
(* faults = {}.  An implementation conforms iff it rejects exactly the     *)
(* inputs with faults # {} and the error class it reports is a member of   *)
(* faults (exact when the input carries a single fault) - this is          *)
(* indifferent to the order in which independent checks are emitted.       *)
(* The encoder does the same with EncodeError classes.                     *)
(*                                                                         *)
(* Clause tags:  Ref: stated by doc/reference.md.  Guide: stated by a      *)
(* generated-code guide.  Assumed: reference silent (DESIGN.md App. A).    *)
(***************************************************************************)
EXTENDS PdlEnum

(* ---------------------------- values ---------------------------------- *)
U(limbs)        == [t |-> "u", b |-> limbs, c |-> <<>>, n |-> <<>>]
B(bytes)        == [t |-> "b", b |-> bytes, c |-> <<>>, n |-> <<>>]
A(items)        == [t |-> "a", b |-> <<>>, c |-> items, n |-> <<>>]
S(names, items) == [t |-> "s", b |-> <<>>, c |-> items, n |-> names]
NoneV           == [t |-> "n", b |-> <<>>, c |-> <<>>, n |-> <<>>]

Has(v, name) == v.t = "s" /\ \E i \in 1..Len(v.n) : v.n[i] = name
Get(v, name) == v.c[CHOOSE i \in 1..Len(v.n) : v.n[i] = name]

EmptyFn == [x \in {} |-> 0]

(* equality of values up to the order of struct fields *)
RECURSIVE SameVal(_, _)
SameVal(a, b) ==
  /\ a.t = b.t /\ a.b = b.b /\ Len(a.c) = Len(b.c)
  /\ IF a.t = "s"
     THEN /\ Len(a.n) = Len(b.n)
          /\ \A i \in 1..Len(a.n) : Has(b, a.n[i]) /\ SameVal(a.c[i], Get(b, a.n[i]))
     ELSE \A i \in 1..Len(a.c) : SameVal(a.c[i], b.c[i])

DecErr == {"Length", "FixedValue", "EnumValue", "ArraySize", "TrailingBytes",
           "TrailingBytesInArray", "ConstraintValue"}
EncErr == {"InvalidScalarValue", "SizeOverflow", "CountOverflow",
           "InvalidArrayElementSize", "InconsistentConditionValue"}
(* "Unsupported": the description is outside every supported class at this *)
(* point (e.g. a payload followed by a field of non-static size); such a   *)
(* vector is never used to judge an implementation.  "BadValue": the value *)
(* is not a value of the type at all (harness error, never a verdict).     *)

(* c * e > l without leaving 32 bits; c, e may be saturated at CAP *)
MulGt(c, e, l) ==
  IF c = 0 \/ e = 0 THEN FALSE
  ELSE IF c > l \/ e > l THEN TRUE
  ELSE c * e > l

(* ------------------------- static sizes ------------------------------- *)
(* Octets a part occupies in *every* encoding, or -1 when that is not a    *)
(* constant.  Ref: padding makes array + padding a constant.               *)
RECURSIVE SumSeq(_)
SumSeq(s) == IF s = <<>> THEN 0 ELSE Head(s) + SumSeq(Tail(s))

RECURSIVE TypeStaticBits(_, _, _), FieldStaticBits(_, _, _, _), SumFieldBits(_, _, _, _)

FieldStaticBits(d, decl, i, fuel) ==
  LET f == decl.fields[i] IN
  IF fuel = 0 THEN -1
  ELSE IF IsOptional(f) THEN -1
  ELSE IF f.kind \in {"scalar", "reserved", "fixed", "size", "count", "elementsize"} THEN f.width
  ELSE IF f.kind \in {"padding", "checksum_start"} THEN 0
  ELSE IF IsPayloadField(f) THEN -1
  ELSE IF f.kind \in {"typedef", "fixedenum"} THEN
         (IF HasDecl(d, f.type) THEN TypeStaticBits(d, f.type, fuel - 1) ELSE -1)
  ELSE IF f.kind = "array" THEN
         (IF PaddingAfter(decl, i) >= 0 THEN 8 * PaddingAfter(decl, i)
          ELSE IF f.count < 0 THEN -1
          ELSE IF f.type = "" THEN f.count * f.width
          ELSE IF ~HasDecl(d, f.type) THEN -1
          ELSE LET e == TypeStaticBits(d, f.type, fuel - 1)
               IN IF e < 0 THEN -1 ELSE f.count * e)
  ELSE -1

SumFieldBits(d, decl, i, fuel) ==     \* fields i..end, payload excluded
  IF i > Len(decl.fields) THEN 0
  ELSE LET rest == SumFieldBits(d, decl, i + 1, fuel)
           me == IF IsPayloadField(decl.fields[i]) THEN 0 ELSE FieldStaticBits(d, decl, i, fuel)
       IN IF rest < 0 \/ me < 0 THEN -1 ELSE me + rest

TypeStaticBits(d, id, fuel) ==
  LET decl == DeclOf(d, id) IN
  IF fuel = 0 THEN -1
  ELSE IF decl.kind \in {"enum", "custom", "checksum"} THEN decl.width   \* -1: unsized custom
  ELSE IF decl.kind \in {"packet", "struct"} THEN
     (* a child's fields stand in place of the parent's payload: the type's  *)
     (* extent is the sum over the inheritance chain, payloads excluded,     *)
     (* plus the type's own payload - which is never of constant size        *)
     IF HasPayload(decl) THEN -1
     ELSE LET chain == Chain(d, id)
              parts == [k \in 1..Len(chain) |-> SumFieldBits(d, chain[k], 1, fuel - 1)]
          IN IF \E k \in 1..Len(chain) : parts[k] < 0 THEN -1 ELSE SumSeq(parts)
  ELSE -1

StaticBits(d, id) == TypeStaticBits(d, id, 12)

(* octets occupied by the fields that follow field i, or -1 *)
TailOctets(d, decl, i) ==
  LET b == SumFieldBits(d, decl, i + 1, 12)
      hasPl == \E j \in (i + 1)..Len(decl.fields) : IsPayloadField(decl.fields[j])
  IN IF b < 0 \/ hasPl \/ b % 8 # 0 THEN -1 ELSE b \div 8

(* ============================ DECODER ================================= *)
(* state of one scope (one declaration's field list over one span)        *)
DecInit(span) ==
  [span |-> span, pend |-> <<>>, pw |-> 0,
   size |-> EmptyFn, count |-> EmptyFn, esize |-> EmptyFn, flag |-> EmptyFn,
   names |-> <<>>, items |-> <<>>, npre |-> -1, pl |-> <<>>,
   faults |-> {}, halt |-> FALSE]

Fault(st, e)   == [st EXCEPT !.faults = @ \cup {e}]
Halt(st, es)   == [st EXCEPT !.faults = @ \cup es, !.halt = TRUE]
AddOut(st, id, v) == [st EXCEPT !.names = Append(@, id), !.items = Append(@, v)]

(* result of a nested decode *)
Res(faults, halt, val, rest) == [faults |-> faults, halt |-> halt, val |-> val, rest |-> rest]

RECURSIVE DecodeTypeF(_, _, _, _), DecField(_, _, _, _, _), DecFieldsFrom(_, _, _, _, _),
          DecElems(_, _, _, _, _, _), DecChunks(_, _, _, _, _, _), DecUntilEmpty(_, _, _, _, _),
          BindAll(_, _, _, _, _, _)

(* bind one bit-field of a closed group *)
Bind(d, decl, f, vb, st) ==
  CASE f.kind = "scalar" ->
         IF IsFlag(decl, f)
         THEN [st EXCEPT !.flag = (f.id :> vb[1]) @@ @]
         ELSE AddOut(st, f.id, U(LimbsOfBits(vb)))
    [] f.kind = "reserved" -> st                                  \* Ref: ignored on decode
    [] f.kind = "fixed" ->
         IF vb = BitsOfLimbs(f.v, f.width) THEN st ELSE Fault(st, "FixedValue")
    [] f.kind = "fixedenum" ->
         IF vb = TagBits(EnumOfField(d, f), f.tag) THEN st ELSE Fault(st, "FixedValue")
    [] f.kind = "size" -> [st EXCEPT !.size = (f.target :> NatCapped(vb)) @@ @]
    [] f.kind = "count" -> [st EXCEPT !.count = (f.target :> NatCapped(vb)) @@ @]
    [] f.kind = "elementsize" -> [st EXCEPT !.esize = (f.target :> NatCapped(vb)) @@ @]
    [] f.kind = "typedef" ->
         AddOut(IF EnumValidBits(EnumOfField(d, f), vb) THEN st ELSE Fault(st, "EnumValue"),
                f.id, U(LimbsOfBits(vb)))
    [] OTHER -> Halt(st, {"Unsupported"})

BindAll(d, decl, pend, bits, off, st) ==
  IF pend = <<>> THEN st
  ELSE LET f == Head(pend)
           w == BitWidth(d, f)
       IN BindAll(d, decl, Tail(pend), bits, off + w,
                  Bind(d, decl, f, SubSeq(bits, off + 1, off + w), st))

(* a bit-field: accumulate; at an octet boundary close the group:          *)
(* guard (Length), read, unpack in file byte order, bind                   *)
DecBit(d, decl, f, st) ==
  LET w == BitWidth(d, f)
      pend2 == Append(st.pend, f)
      pw2 == st.pw + w
  IN IF pw2 % 8 # 0 \/ pw2 = 0 THEN [st EXCEPT !.pend = pend2, !.pw = pw2]
     ELSE LET n == pw2 \div 8 IN
          IF Len(st.span) < n THEN Halt(st, {"Length"})
          ELSE BindAll(d, decl, pend2, UnpackGroup(SubSeq(st.span, 1, n), IsBig(d)), 0,
                       [st EXCEPT !.span = Drop(st.span, n), !.pend = <<>>, !.pw = 0])

(* an octet-aligned integer of w bits in file byte order *)
ReadUint(d, span, w) == UnpackGroup(SubSeq(span, 1, w \div 8), IsBig(d))

(* one value of a non-struct element type / optional scalar: [faults, halt, val, rest] *)
DecScalarLike(d, f, isEnum, w, span) ==
  IF w % 8 # 0 \/ w = 0 THEN Res({"Unsupported"}, TRUE, NoneV, span)
  ELSE IF Len(span) < w \div 8 THEN Res({"Length"}, TRUE, NoneV, span)
  ELSE LET vb == ReadUint(d, span, w)
           bad == isEnum /\ ~EnumValidBits(DeclOf(d, f.type), vb)
       IN Res(IF bad THEN {"EnumValue"} ELSE {}, FALSE, U(LimbsOfBits(vb)), Drop(span, w \div 8))

(* decode a value of declared type `id` (struct, enum, custom, checksum) from span *)
DecTyped(d, f, span, fuel) ==
  LET t == DeclOf(d, f.type) IN
  CASE t.kind = "struct" -> DecodeTypeF(d, t.id, span, fuel)
    [] t.kind = "enum" -> DecScalarLike(d, f, TRUE, t.width, span)
    [] t.kind \in {"custom", "checksum"} /\ t.width > 0 -> DecScalarLike(d, f, FALSE, t.width, span)
    [] OTHER -> Res({"Unsupported"}, TRUE, NoneV, span)

(* Ref: an optional field is present iff its flag equals its condition value *)
DecOptional(d, decl, f, st, fuel) ==
  IF f.cond \notin DOMAIN st.flag THEN Halt(st, {"Unsupported"})
  ELSE IF st.flag[f.cond] # f.condv THEN AddOut(st, f.id, NoneV)
  ELSE LET r == IF f.kind = "scalar"
                THEN DecScalarLike(d, f, FALSE, f.width, st.span)
                ELSE IF f.kind = "typedef" /\ HasDecl(d, f.type) THEN DecTyped(d, f, st.span, fuel)
                ELSE Res({"Unsupported"}, TRUE, NoneV, st.span)
       IN IF r.halt THEN Halt(st, r.faults)
          ELSE AddOut([st EXCEPT !.span = r.rest, !.faults = @ \cup r.faults], f.id, r.val)

DecTypedef(d, decl, f, st, fuel) ==
  IF ~HasDecl(d, f.type) THEN Halt(st, {"Unsupported"})
  ELSE LET r == DecTyped(d, f, st.span, fuel)
       IN IF r.halt THEN Halt(st, r.faults)
          ELSE AddOut([st EXCEPT !.span = r.rest, !.faults = @ \cup r.faults], f.id, r.val)

(* ------------------------------ arrays -------------------------------- *)
(* element decode: scalar elements have f.type = "" *)
DecElem(d, f, span, fuel) ==
  IF f.type = "" THEN DecScalarLike(d, f, FALSE, f.width, span)
  ELSE DecTyped(d, f, span, fuel)

ElemStaticOctets(d, f) ==
  LET b == IF f.type = "" THEN f.width
           ELSE IF HasDecl(d, f.type) THEN StaticBits(d, f.type) ELSE -1
  IN IF b < 0 THEN -1 ELSE IF b % 8 # 0 THEN -2 ELSE b \div 8

(* n elements back to back; acc = [faults, items]; stops at a structural fault.   *)
(* Once the span is empty every remaining element decodes from <<>> identically,  *)
(* so the tail is computed once (n may be saturated).                              *)
DecElems(d, f, span, n, acc, fuel) ==
  IF n = 0 THEN Res(acc.faults, FALSE, A(acc.items), span)
  ELSE LET r == DecElem(d, f, span, fuel) IN
       IF r.halt THEN Res(acc.faults \cup r.faults, TRUE, NoneV, span)
       ELSE IF span = <<>> /\ r.rest = <<>>
       THEN (IF n > 64 THEN Res(acc.faults \cup {"Unsupported"}, TRUE, NoneV, span)
             ELSE Res(acc.faults \cup r.faults, FALSE,
                      A(acc.items \o [k \in 1..n |-> r.val]), span))
       ELSE DecElems(d, f, r.rest, n - 1,
                     [faults |-> acc.faults \cup r.faults, items |-> Append(acc.items, r.val)], fuel)

(* Guide: n chunks of es octets, each consumed exactly by its element *)
DecChunks(d, f, span, es, n, acc) ==
  IF n = 0 THEN Res(acc.faults, FALSE, A(acc.items), span)
  ELSE LET chunk == Take(span, es)
           r == DecElem(d, f, chunk, 8)
       IN IF r.halt THEN Res(acc.faults \cup r.faults, TRUE, NoneV, span)
          ELSE IF r.rest # <<>>
          THEN Res(acc.faults \cup r.faults \cup {"TrailingBytesInArray"}, TRUE, NoneV, span)
          ELSE IF es = 0
          THEN (IF n > 64 THEN Res(acc.faults \cup {"Unsupported"}, TRUE, NoneV, span)
                ELSE Res(acc.faults \cup r.faults, FALSE,
                         A(acc.items \o [k \in 1..n |-> r.val]), span))
          ELSE DecChunks(d, f, Drop(span, es), es, n - 1,
                         [faults |-> acc.faults \cup r.faults, items |-> Append(acc.items, r.val)])

(* elements until the region is used up; an element that consumes nothing  *)
(* from a non-empty region has no defined extent (outside every class)     *)
DecUntilEmpty(d, f, span, acc, fuel) ==
  IF span = <<>> THEN Res(acc.faults, FALSE, A(acc.items), span)
  ELSE LET r == DecElem(d, f, span, fuel) IN
       IF r.halt THEN Res(acc.faults \cup r.faults, TRUE, NoneV, span)
       ELSE IF Len(r.rest) = Len(span) THEN Res(acc.faults \cup {"Unsupported"}, TRUE, NoneV, span)
       ELSE DecUntilEmpty(d, f, r.rest,
                          [faults |-> acc.faults \cup r.faults, items |-> Append(acc.items, r.val)], fuel)

Acc0 == [faults |-> {}, items |-> <<>>]

(* the array proper, inside `region` (the padded head if padding follows,  *)
(* the rest of the scope otherwise).  App. A.13.                           *)
DecArrayIn(d, decl, f, st, region, fuel) ==
  LET ew == ElemStaticOctets(d, f)
      hasCount == f.count >= 0 \/ (HasCountField(decl, f.id) /\ f.id \in DOMAIN st.count)
      cnt == IF f.count >= 0 THEN f.count ELSE st.count[f.id]
      hasSize == HasSizeField(decl, f.id) /\ f.id \in DOMAIN st.size
      rawSize == st.size[f.id]
      md == IF f.mod > 0 THEN f.mod ELSE 0
      size == rawSize - md
      hasEs == HasElemSizeField(decl, f.id) /\ f.id \in DOMAIN st.esize
      es == st.esize[f.id]
      L == Len(region)
  IN
  IF ew = -2 \/ ew = 0 THEN Res({"Unsupported"}, TRUE, NoneV, region)
  ELSE IF (HasCountField(decl, f.id) \/ HasSizeField(decl, f.id)) /\ ~hasCount /\ ~hasSize
  THEN Res({"Unsupported"}, TRUE, NoneV, region)         \* extent field declared after the array
  ELSE IF HasElemSizeField(decl, f.id) /\ ~hasEs /\ ew < 0
  THEN Res({"Unsupported"}, TRUE, NoneV, region)
  ELSE IF ~hasCount /\ hasSize /\ rawSize < md THEN Res({"Length"}, TRUE, NoneV, region)
  ELSE IF ew > 0 THEN
     (* statically sized elements *)
     IF hasCount THEN
        IF MulGt(cnt, ew, L) THEN Res({"Length"}, TRUE, NoneV, region)
        ELSE DecElems(d, f, region, cnt, Acc0, fuel)
     ELSE LET ext == IF hasSize THEN size ELSE L
              fs == (IF ext > L THEN {"Length"} ELSE {})
                    \cup (IF ext % ew # 0 THEN {"ArraySize"} ELSE {})
          IN IF fs # {} THEN Res(fs, TRUE, NoneV, region)
             ELSE LET r == DecElems(d, f, Take(region, ext), ext \div ew, Acc0, fuel)
                      (* Assumed: the extent divides into ext / ew elements, so a decoder may as well read that   *)
                      (* many elements from the open region.  An element whose own size field runs past the        *)
                      (* extent is then met by another guard first (the element's exact-consumption check):      *)
                      (* both classes name the fault.                                                             *)
                      open == DecElems(d, f, region, ext \div ew, Acc0, fuel)
                  IN IF r.halt
                     THEN (IF "Length" \in r.faults /\ ext < L /\ open.faults # {}
                           THEN [r EXCEPT !.faults = @ \cup open.faults] ELSE r)
                     ELSE [r EXCEPT !.rest = Drop(region, ext)]
  ELSE IF hasEs THEN
     (* element size given by an element-size field *)
     IF hasCount THEN
        IF MulGt(cnt, es, L) THEN Res({"Length"}, TRUE, NoneV, region)
        ELSE DecChunks(d, f, region, es, cnt, Acc0)
     ELSE LET ext == IF hasSize THEN size ELSE L
              fs == (IF ext > L THEN {"Length"} ELSE {})
                    \cup (IF (es = 0 /\ ext # 0) \/ (es > 0 /\ ext % es # 0)
                          THEN {"ArraySize"} ELSE {})
          IN IF fs # {} THEN Res(fs, TRUE, NoneV, region)
             ELSE IF es = 0 THEN Res({}, FALSE, A(<<>>), region)
             ELSE LET r == DecChunks(d, f, Take(region, ext), es, ext \div es, Acc0)
                  IN IF r.halt THEN r ELSE [r EXCEPT !.rest = Drop(region, ext)]
  ELSE
     (* elements of unknown size: parsed back to back *)
     IF hasCount THEN DecElems(d, f, region, cnt, Acc0, fuel)
     ELSE LET ext == IF hasSize THEN size ELSE L IN
          IF ext > L THEN Res({"Length"}, TRUE, NoneV, region)
          ELSE LET r == DecUntilEmpty(d, f, Take(region, ext), Acc0, fuel)
               IN IF r.halt THEN r ELSE [r EXCEPT !.rest = Drop(region, ext)]

(* Ref: _padding_[N] after array f: the first N octets are the padded      *)
(* region; f is parsed inside it; what remains of the region is skipped.   *)
DecArray(d, decl, i, st, fuel) ==
  LET f == decl.fields[i]
      pad == PaddingAfter(decl, i)
  IN IF pad >= 0 /\ Len(st.span) < pad THEN Halt(st, {"Length"})
     ELSE LET region == IF pad >= 0 THEN Take(st.span, pad) ELSE st.span
              r == DecArrayIn(d, decl, f, st, region, fuel)
          IN IF r.halt THEN Halt(st, r.faults)
             ELSE AddOut([st EXCEPT !.span = IF pad >= 0 THEN Drop(st.span, pad) ELSE r.rest,
                                    !.faults = @ \cup r.faults],
                         f.id, r.val)

(* Ref: payload/body: size field (minus modifier) octets; else everything  *)
(* but the statically sized fields that follow.  Assumed (A.4): size less  *)
(* than the modifier is a Length rejection.                                *)
DecPayload(d, decl, i, st) ==
  LET f == decl.fields[i]
      name == TargetName(f)
      md == IF f.mod > 0 THEN f.mod ELSE 0
      L == Len(st.span)
  IN IF HasSizeField(decl, name) THEN
        IF name \notin DOMAIN st.size THEN Halt(st, {"Unsupported"})
        ELSE LET s == st.size[name] IN
             IF s < md \/ s - md > L THEN Halt(st, {"Length"})
             ELSE [st EXCEPT !.pl = Take(st.span, s - md), !.span = Drop(st.span, s - md),
                             !.npre = Len(st.names)]
     ELSE LET tail == TailOctets(d, decl, i) IN
          IF tail < 0 THEN Halt(st, {"Unsupported"})
          ELSE IF L < tail THEN Halt(st, {"Length"})
          ELSE [st EXCEPT !.pl = Take(st.span, L - tail), !.span = Drop(st.span, L - tail),
                          !.npre = Len(st.names)]

DecField(d, decl, i, st, fuel) ==
  LET f == decl.fields[i] IN
  IF st.halt THEN st
  ELSE IF f.kind \in {"padding", "checksum_start"} THEN st
  ELSE IF IsBitfield(d, f) THEN DecBit(d, decl, f, st)
  ELSE IF st.pw # 0 THEN Halt(st, {"Unsupported"})      \* Ref: must start on an octet boundary
  ELSE IF IsOptional(f) THEN DecOptional(d, decl, f, st, fuel)
  ELSE IF f.kind = "array" THEN DecArray(d, decl, i, st, fuel)
  ELSE IF IsPayloadField(f) THEN DecPayload(d, decl, i, st)
  ELSE IF f.kind = "typedef" THEN DecTypedef(d, decl, f, st, fuel)
  ELSE Halt(st, {"Unsupported"})

DecFieldsFrom(d, decl, i, st, fuel) ==
  IF i > Len(decl.fields) THEN st
  ELSE DecFieldsFrom(d, decl, i + 1, DecField(d, decl, i, st, fuel), fuel)

(* scope end: a group left open means the declaration is not octet-sized *)
DecScope(d, decl, span, fuel) ==
  LET st == DecFieldsFrom(d, decl, 1, DecInit(span), fuel)
  IN IF ~st.halt /\ st.pw # 0 THEN Halt(st, {"Unsupported"}) ELSE st

(* ---------------------- inheritance on decode ------------------------- *)
(* Ref: a child's fields are parsed from the parent's payload, after the   *)
(* child's constraints have been checked against the parent's fields; they *)
(* must consume the payload exactly.                                       *)
ConsLimbs(d, chain, c) ==        \* the value a constraint denotes, as limbs
  IF c.tag = "" THEN c.v
  ELSE LET hits == {<<k, i>> \in (1..Len(chain)) \X (1..16) :
                       i <= Len(chain[k].fields) /\ chain[k].fields[i].id = c.id
                       /\ chain[k].fields[i].kind = "typedef"}
       IN IF hits = {} THEN <<>>
          ELSE LET h == CHOOSE x \in hits : TRUE
                   e == DeclOf(d, chain[h[1]].fields[h[2]].type)
               IN IF e.kind = "enum" /\ HasNamedTag(e, c.tag) THEN StripZeros(NamedTag(e, c.tag).v)
                  ELSE <<>>

ConsViolated(d, chain, c, names, items) ==
  \/ ~\E i \in 1..Len(names) : names[i] = c.id
  \/ LET v == items[CHOOSE i \in 1..Len(names) : names[i] = c.id]
     IN v.t # "u" \/ v.b # StripZeros(ConsLimbs(d, chain, c))

RECURSIVE DecLevels(_, _, _, _, _, _)
(* levels k..Len(chain) over `span`; `seenN/seenI`: fields bound by the ancestors.  *)
(* returns [faults, halt, pre, post, pl, rest] with pre/post = <<names, items>>      *)
DecLevels(d, chain, k, span, seen, fuel) ==
  LET decl == chain[k]
      bad == {c \in SeqToSet(decl.cons) : ConsViolated(d, chain, c, seen[1], seen[2])}
      cf == IF k > 1 /\ bad # {} THEN {"ConstraintValue"} ELSE {}
      st == DecScope(d, decl, span, fuel)
      np == IF st.npre < 0 THEN Len(st.names) ELSE st.npre
      preN == SubSeq(st.names, 1, np)    preI == SubSeq(st.items, 1, np)
      postN == SubSeq(st.names, np + 1, Len(st.names))
      postI == SubSeq(st.items, np + 1, Len(st.items))
  IN IF st.halt THEN [faults |-> cf \cup st.faults, halt |-> TRUE, names |-> <<>>, items |-> <<>>,
                      pl |-> <<>>, rest |-> st.span]
     ELSE IF k = Len(chain)
     THEN [faults |-> cf \cup st.faults, halt |-> FALSE,
           names |-> st.names, items |-> st.items, pl |-> st.pl, rest |-> st.span]
     ELSE IF st.npre < 0 /\ chain[k + 1].fields # <<>>
     THEN [faults |-> {"Unsupported"}, halt |-> TRUE, names |-> <<>>, items |-> <<>>,
           pl |-> <<>>, rest |-> st.span]
     ELSE LET sub == DecLevels(d, chain, k + 1, st.pl,
                               <<seen[1] \o st.names, seen[2] \o st.items>>, fuel)
              tb == IF ~sub.halt /\ sub.rest # <<>> THEN {"TrailingBytes"} ELSE {}
          IN [faults |-> cf \cup st.faults \cup sub.faults \cup tb,
              halt |-> sub.halt \/ tb # {},
              names |-> preN \o sub.names \o postN,
              items |-> preI \o sub.items \o postI,
              pl |-> sub.pl, rest |-> st.span]

DecodeTypeF(d, id, input, fuel) ==
  IF fuel = 0 THEN Res({"Unsupported"}, TRUE, NoneV, input)
  ELSE
  LET chain == Chain(d, id)
      r == DecLevels(d, chain, 1, input, <<<<>>, <<>>>>, fuel - 1)
      consIds == {AllCons(d, id)[i].id : i \in 1..Len(AllCons(d, id))}
      keep == SelectSeq([i \in 1..Len(r.names) |-> i], LAMBDA i : r.names[i] \notin consIds)
      names == [j \in 1..Len(keep) |-> r.names[keep[j]]]
      items == [j \in 1..Len(keep) |-> r.items[keep[j]]]
      leaf == chain[Len(chain)]
  IN IF r.halt THEN Res(r.faults, TRUE, NoneV, r.rest)
     ELSE Res(r.faults, FALSE,
              IF HasPayload(leaf) THEN S(Append(names, "payload"), Append(items, B(r.pl)))
              ELSE S(names, items),
              r.rest)

(* decode: value + remainder.  decode_full: the remainder must be empty.   *)
DecodeType(d, id, input) == DecodeTypeF(d, id, input, 6)

DecodeFull(d, id, input) ==
  LET r == DecodeType(d, id, input)
  IN IF ~r.halt /\ r.rest # <<>>
     THEN [r EXCEPT !.faults = @ \cup {"TrailingBytes"}, !.halt = TRUE]
     ELSE r

Accepts(d, id, input) == DecodeFull(d, id, input).faults = {}

(* ============================ ENCODER ================================= *)
(* `ov`: overrides for derived / constant bit-fields, a function from      *)
(* <<declaration id, field index>> to bits.  Empty for the reference       *)
(* encoding; a single entry builds a semantic single-fault mutant.         *)
(* `chunks`: the octet ranges [o |-> offset, n |-> length] that are written  *)
(* in file byte order - bit-field groups, multi-octet scalar / enum / custom *)
(* values - recursively through structs and child payloads.  They are the    *)
(* chunk map of the endianness duality (C17).                                *)
EncInit == [out |-> <<>>, cb |-> <<>>, faults |-> {}, chunks |-> <<>>]

EFault(st, e) == [st EXCEPT !.faults = @ \cup {e}]

EResC(faults, bytes, chunks) == [faults |-> faults, bytes |-> bytes, chunks |-> chunks]
ERes(faults, bytes) == EResC(faults, bytes, <<>>)

Shift(chunks, off) == [i \in 1..Len(chunks) |-> [o |-> chunks[i].o + off, n |-> chunks[i].n]]

FitsNat(n, w) == w >= 31 \/ n < 2 ^ w

RECURSIVE EncodeTypeF(_, _, _, _, _), EncField(_, _, _, _, _, _, _, _, _), EncFieldsFrom(_, _, _, _, _, _, _, _, _),
          EncElemsFrom(_, _, _, _, _, _), PartChunks(_, _, _, _)

(* one element: [faults, bytes, chunks] *)
EncScalarLike(d, isEnum, e, w, node) ==
  IF node.t # "u" \/ w % 8 # 0 THEN ERes({"BadValue"}, <<>>)
  ELSE EResC((IF ~FitsLimbs(node.b, w) THEN {"InvalidScalarValue"} ELSE {})
             \cup (IF isEnum /\ FitsLimbs(node.b, w) /\ ~EnumValidBits(e, BitsOfLimbs(node.b, w))
                   THEN {"InvalidEnumValue"} ELSE {}),
             PackGroup(BitsOfLimbs(node.b, w), IsBig(d)),
             IF w > 8 THEN <<[o |-> 0, n |-> w \div 8]>> ELSE <<>>)

EncTyped(d, typeId, node, ov, fuel) ==
  LET t == DeclOf(d, typeId) IN
  CASE t.kind = "struct" -> EncodeTypeF(d, typeId, node, ov, fuel)
    [] t.kind = "enum" -> EncScalarLike(d, TRUE, t, t.width, node)
    [] t.kind \in {"custom", "checksum"} /\ t.width > 0 -> EncScalarLike(d, FALSE, t, t.width, node)
    [] OTHER -> ERes({"Unsupported"}, <<>>)

EncElem(d, f, node, ov, fuel) ==
  IF f.type = "" THEN EncScalarLike(d, FALSE, f, f.width, node)
  ELSE IF HasDecl(d, f.type) THEN EncTyped(d, f.type, node, ov, fuel)
  ELSE ERes({"Unsupported"}, <<>>)

(* elements i..n: [faults, parts, pchunks]: element encodings and their chunk lists *)
EncElemsFrom(d, f, items, i, ov, fuel) ==
  IF i > Len(items) THEN [faults |-> {}, parts |-> <<>>, pchunks |-> <<>>]
  ELSE LET r == EncElem(d, f, items[i], ov, fuel)
           rest == EncElemsFrom(d, f, items, i + 1, ov, fuel)
       IN [faults |-> r.faults \cup rest.faults, parts |-> <<r.bytes>> \o rest.parts,
           pchunks |-> <<r.chunks>> \o rest.pchunks]

(* chunk list of the concatenation of parts i.., the first starting at off *)
PartChunks(parts, pchunks, i, off) ==
  IF i > Len(parts) THEN <<>>
  ELSE Shift(pchunks[i], off) \o PartChunks(parts, pchunks, i + 1, off + Len(parts[i]))

(* the array proper (no padding): [faults, parts, pchunks] *)
EncArrayParts(d, f, val, ov, fuel) ==
  IF ~Has(val, f.id) THEN [faults |-> {"BadValue"}, parts |-> <<>>, pchunks |-> <<>>]
  ELSE LET node == Get(val, f.id) IN
       IF node.t # "a" \/ (f.count >= 0 /\ Len(node.c) # f.count)
       THEN [faults |-> {"BadValue"}, parts |-> <<>>, pchunks |-> <<>>]
       ELSE EncElemsFrom(d, f, node.c, 1, ov, fuel)

FieldNamed(decl, name) ==
  decl.fields[CHOOSE i \in 1..Len(decl.fields) : TargetName(decl.fields[i]) = name
                                                    /\ decl.fields[i].kind \in {"array", "payload", "body"}]
HasFieldNamed(decl, name) ==
  \E i \in 1..Len(decl.fields) : TargetName(decl.fields[i]) = name
                                   /\ decl.fields[i].kind \in {"array", "payload", "body"}

(* Ref: the flag is derived from the presence of the optional fields it     *)
(* governs; presences implying both 0 and 1 are an encode error            *)
FlagImplied(val, g) ==
  IF Has(val, g.id) /\ Get(val, g.id).t # "n" THEN g.condv ELSE 1 - g.condv

(* the bits of a bit-field and the faults found computing them *)
EncBits(d, decl, i, val, pl, ov, fuel) ==
  LET f == decl.fields[i]
      w == BitWidth(d, f)
      key == <<decl.id, i>>
  IN
  IF key \in DOMAIN ov THEN [faults |-> {}, bits |-> ov[key]]
  ELSE
  CASE f.kind = "scalar" /\ IsFlag(decl, f) ->
         LET users == FlagUsers(decl, f.id)
             imp == {FlagImplied(val, users[k]) : k \in 1..Len(users)}
         IN [faults |-> IF Cardinality(imp) > 1 THEN {"InconsistentConditionValue"} ELSE {},
             bits |-> <<FlagImplied(val, users[1])>>]
    [] f.kind = "scalar" /\ ~IsFlag(decl, f) ->
         IF ~Has(val, f.id) \/ Get(val, f.id).t # "u" THEN [faults |-> {"BadValue"}, bits |-> Zeros(w)]
         ELSE [faults |-> IF FitsLimbs(Get(val, f.id).b, w) THEN {} ELSE {"InvalidScalarValue"},
               bits |-> BitsOfLimbs(Get(val, f.id).b, w)]
    [] f.kind = "reserved" -> [faults |-> {}, bits |-> Zeros(w)]            \* Ref: zeros
    [] f.kind = "fixed" -> [faults |-> {}, bits |-> BitsOfLimbs(f.v, w)]
    [] f.kind = "fixedenum" -> [faults |-> {}, bits |-> TagBits(EnumOfField(d, f), f.tag)]
    [] f.kind = "typedef" ->
         IF ~Has(val, f.id) \/ Get(val, f.id).t # "u" THEN [faults |-> {"BadValue"}, bits |-> Zeros(w)]
         ELSE LET b == Get(val, f.id).b IN
              [faults |-> IF ~FitsLimbs(b, w) THEN {"InvalidScalarValue"}
                          ELSE IF ~EnumValidBits(EnumOfField(d, f), BitsOfLimbs(b, w))
                          THEN {"InvalidEnumValue"} ELSE {},
               bits |-> BitsOfLimbs(b, w)]
    [] f.kind = "size" ->
         (* Ref: octet size of the designated part, plus its size modifier *)
         IF ~HasFieldNamed(decl, f.target) THEN [faults |-> {"Unsupported"}, bits |-> Zeros(w)]
         ELSE LET g == FieldNamed(decl, f.target)
                  md == IF g.mod > 0 THEN g.mod ELSE 0
                  r == IF g.kind = "array" THEN EncArrayParts(d, g, val, ov, fuel)
                       ELSE [faults |-> {}, parts |-> <<pl>>]
                  n == Len(Concat(r.parts)) + md
              IN [faults |-> IF FitsNat(n, w) THEN {} ELSE {"SizeOverflow"},
                  bits |-> BitsOfNat(n, w)]
    [] f.kind = "count" ->
         IF ~HasFieldNamed(decl, f.target) \/ ~Has(val, f.target) \/ Get(val, f.target).t # "a"
         THEN [faults |-> {"BadValue"}, bits |-> Zeros(w)]
         ELSE LET n == Len(Get(val, f.target).c)
              IN [faults |-> IF FitsNat(n, w) THEN {} ELSE {"CountOverflow"},
                  bits |-> BitsOfNat(n, w)]
    [] f.kind = "elementsize" ->
         (* Guide: octet size shared by all elements (0 for an empty array) *)
         IF ~HasFieldNamed(decl, f.target) THEN [faults |-> {"Unsupported"}, bits |-> Zeros(w)]
         ELSE LET r == EncArrayParts(d, FieldNamed(decl, f.target), val, ov, fuel)
                  n == IF r.parts = <<>> THEN 0 ELSE Len(r.parts[1])
                  uneven == \E k \in 1..Len(r.parts) : Len(r.parts[k]) # n
              IN [faults |-> (IF uneven THEN {"InvalidArrayElementSize"} ELSE {})
                             \cup (IF FitsNat(n, w) THEN {} ELSE {"SizeOverflow"}),
                  bits |-> BitsOfNat(n, w)]
    [] OTHER -> [faults |-> {"Unsupported"}, bits |-> Zeros(w)]

(* append bits to the open group; at an octet boundary cut into octets and *)
(* write them in file byte order                                           *)
PushBits(d, st, bits) ==
  LET cb == st.cb \o bits IN
  IF Len(cb) % 8 = 0
  THEN [st EXCEPT !.out = @ \o PackGroup(cb, IsBig(d)), !.cb = <<>>,
                  !.chunks = IF Len(cb) > 8 THEN Append(@, [o |-> Len(st.out), n |-> Len(cb) \div 8]) ELSE @]
  ELSE [st EXCEPT !.cb = cb]

AppendRes(st, r) ==
  [st EXCEPT !.out = @ \o r.bytes, !.faults = @ \cup r.faults,
             !.chunks = @ \o Shift(r.chunks, Len(st.out))]

(* pl, plc: the payload octets of this level and their chunk list *)
EncField(d, decl, i, st, val, pl, plc, ov, fuel) ==
  LET f == decl.fields[i] IN
  IF f.kind \in {"padding", "checksum_start"} THEN st
  ELSE IF IsBitfield(d, f) THEN
     LET r == EncBits(d, decl, i, val, pl, ov, fuel)
     IN PushBits(d, [st EXCEPT !.faults = @ \cup r.faults], r.bits)
  ELSE IF st.cb # <<>> THEN EFault(st, "Unsupported")
  ELSE IF IsOptional(f) THEN
     IF ~Has(val, f.id) THEN EFault(st, "BadValue")
     ELSE LET node == Get(val, f.id) IN
          IF node.t = "n" THEN st
          ELSE AppendRes(st, IF f.kind = "scalar" THEN EncScalarLike(d, FALSE, f, f.width, node)
                             ELSE IF f.kind = "typedef" /\ HasDecl(d, f.type)
                             THEN EncTyped(d, f.type, node, ov, fuel)
                             ELSE ERes({"Unsupported"}, <<>>))
  ELSE IF f.kind = "array" THEN
     (* Ref: padding: zeros up to N octets; longer than N is an error *)
     LET r == EncArrayParts(d, f, val, ov, fuel)
         bytes == Concat(r.parts)
         pad == PaddingAfter(decl, i)
         over == pad >= 0 /\ Len(bytes) > pad
         fill == IF pad >= 0 /\ ~over THEN Zeros(pad - Len(bytes)) ELSE <<>>
         key == <<decl.id, i + 1>>
         fill2 == IF key \in DOMAIN ov /\ fill # <<>> THEN [k \in 1..Len(fill) |-> 255] ELSE fill
     IN [st EXCEPT !.out = @ \o bytes \o fill2,
                   !.faults = @ \cup r.faults \cup (IF over THEN {"SizeOverflow"} ELSE {}),
                   !.chunks = @ \o PartChunks(r.parts, r.pchunks, 1, Len(st.out))]
  ELSE IF IsPayloadField(f) THEN
     [st EXCEPT !.out = @ \o pl, !.chunks = @ \o Shift(plc, Len(st.out))]
  ELSE IF f.kind = "typedef" THEN
     IF ~Has(val, f.id) \/ ~HasDecl(d, f.type) THEN EFault(st, "BadValue")
     ELSE AppendRes(st, EncTyped(d, f.type, Get(val, f.id), ov, fuel))
  ELSE EFault(st, "Unsupported")

EncFieldsFrom(d, decl, i, st, val, pl, plc, ov, fuel) ==
  IF i > Len(decl.fields) THEN st
  ELSE EncFieldsFrom(d, decl, i + 1, EncField(d, decl, i, st, val, pl, plc, ov, fuel), val, pl, plc, ov, fuel)

EncScope(d, decl, val, pl, plc, ov, fuel) ==
  LET st == EncFieldsFrom(d, decl, 1, EncInit, val, pl, plc, ov, fuel)
  IN IF st.cb # <<>> THEN EFault(st, "Unsupported") ELSE st

(* Ref: constrained parent fields carry their constant *)
WithConstants(d, id, v) ==
  LET chain == Chain(d, id)
      cs == AllCons(d, id)
  IN S(v.n \o [i \in 1..Len(cs) |-> cs[i].id],
       v.c \o [i \in 1..Len(cs) |-> U(StripZeros(ConsLimbs(d, chain, cs[i])))])

RECURSIVE EncLevels(_, _, _, _, _, _, _, _, _)
(* levels k down to `stop`: the bytes of level k+1.. become the payload of level k *)
EncLevels(d, chain, k, stop, val, pl, plc, ov, fuel) ==
  LET st == EncScope(d, chain[k], val, pl, plc, ov, fuel)
      miss == IF k < Len(chain) /\ ~HasPayload(chain[k]) /\ pl # <<>> THEN {"Unsupported"} ELSE {}
  IN IF k <= stop THEN EResC(st.faults \cup miss, st.out, st.chunks)
     ELSE LET up == EncLevels(d, chain, k - 1, stop, val, st.out, st.chunks, ov, fuel)
          IN EResC(st.faults \cup miss \cup up.faults, up.bytes, up.chunks)

EncodeTypeF(d, id, v, ov, fuel) ==
  IF fuel = 0 THEN ERes({"Unsupported"}, <<>>)
  ELSE IF v.t # "s" THEN ERes({"BadValue"}, <<>>)
  ELSE
  LET chain == Chain(d, id)
      leaf == chain[Len(chain)]
      val == WithConstants(d, id, v)
      plOk == ~HasPayload(leaf) \/ (Has(v, "payload") /\ Get(v, "payload").t = "b")
      pl == IF HasPayload(leaf) /\ plOk THEN Get(v, "payload").b ELSE <<>>
      r == EncLevels(d, chain, Len(chain), 1, val, pl, <<>>, ov, fuel - 1)
  IN IF plOk THEN r ELSE EResC(r.faults \cup {"BadValue"}, r.bytes, r.chunks)

(* Endianness duality (C17): reverse the octets of every chunk *)
Dual(bytes, chunks) ==
  [j \in 1..Len(bytes) |->
     IF \E c \in 1..Len(chunks) : j > chunks[c].o /\ j <= chunks[c].o + chunks[c].n
     THEN LET c == CHOOSE x \in 1..Len(chunks) : j > chunks[x].o /\ j <= chunks[x].o + chunks[x].n
          IN bytes[chunks[c].o + (chunks[c].n + 1 - (j - chunks[c].o))]
     ELSE bytes[j]]

Twin(d) == [d EXCEPT !.endian = IF @ = "big" THEN "little" ELSE "big"]

EncodeWith(d, id, v, ov) == EncodeTypeF(d, id, v, ov, 6)
EncodeType(d, id, v) == EncodeWith(d, id, v, EmptyFn)

WellFormedValue(d, id, v) == EncodeType(d, id, v).faults = {}

=============================================================================
