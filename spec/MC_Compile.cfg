SPECIFICATION Spec
INVARIANT TypeOK
INVARIANT NoIllFormedReachesBackend
CHECK_DEADLOCK FALSE
