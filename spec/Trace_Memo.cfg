SPECIFICATION MSpec
INVARIANT Report
CHECK_DEADLOCK FALSE
