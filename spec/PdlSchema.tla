------------------------------ MODULE PdlSchema ------------------------------
(***************************************************************************)
(* Size annotations (the library's public Schema queries; property C16),   *)
(* defined from what each class *means*:                                   *)
(*   Static(n)  - the part occupies exactly n bits in every encoding       *)
(*   Dynamic    - its extent is given at run time by a size field, a count *)
(*                field or a condition flag (or it is an unsized custom     *)
(*                field, which delimits itself)                            *)
(*   Unknown    - nothing delimits it: it extends to the end of its scope  *)
(* A sum is Unknown if any addend is, else Dynamic if any addend is, else  *)
(* the Static sum.  A padded array counts for its padding, whatever the    *)
(* array's own class.                                                      *)
(***************************************************************************)
EXTENDS PdlStim

Static(n) == [k |-> "static", n |-> n]
Dynamic == [k |-> "dynamic", n |-> 0]
Unknown == [k |-> "unknown", n |-> 0]

Plus(a, b) ==
  IF a.k = "unknown" \/ b.k = "unknown" THEN Unknown
  ELSE IF a.k = "dynamic" \/ b.k = "dynamic" THEN Dynamic
  ELSE Static(a.n + b.n)

Times(a, c) == IF a.k = "static" THEN Static(a.n * c) ELSE a

RECURSIVE TotalSizeF(_, _, _), FieldSizeF(_, _, _, _), DeclSizeFrom(_, _, _, _), ParentSizeF(_, _, _)

(* the size of field i taken alone (padding that follows is not included) *)
FieldSizeF(d, decl, i, fuel) ==
  LET f == decl.fields[i] IN
  IF fuel = 0 THEN Unknown
  ELSE IF IsOptional(f) THEN Dynamic                         \* delimited by its condition flag
  ELSE IF f.kind \in {"scalar", "reserved", "fixed", "size", "count", "elementsize"} THEN Static(f.width)
  ELSE IF f.kind \in {"padding", "checksum_start"} THEN Static(0)
  ELSE IF IsPayloadField(f) THEN
       (IF HasSizeField(decl, TargetName(f)) THEN Dynamic ELSE Unknown)
  ELSE IF f.kind \in {"typedef", "fixedenum", "group"} THEN
       (IF HasDecl(d, f.type) THEN TotalSizeF(d, f.type, fuel - 1) ELSE Unknown)
  ELSE IF f.kind = "array" THEN
       (IF f.count >= 0
        THEN (IF f.type = "" THEN Static(f.count * f.width)
              ELSE IF HasDecl(d, f.type) THEN Times(TotalSizeF(d, f.type, fuel - 1), f.count) ELSE Unknown)
        ELSE IF HasSizeField(decl, f.id) \/ HasCountField(decl, f.id) THEN Dynamic
        ELSE Unknown)
  ELSE Unknown

(* octets of padding that make field i a padded array, as bits, or -1 *)
PaddedBits(decl, i) == IF PaddingAfter(decl, i) >= 0 THEN 8 * PaddingAfter(decl, i) ELSE -1

(* the declaration's own fields, payload excluded, padded arrays at their padding *)
DeclSizeFrom(d, decl, i, fuel) ==
  IF i > Len(decl.fields) THEN Static(0)
  ELSE LET me == IF IsPayloadField(decl.fields[i]) THEN Static(0)
                 ELSE IF PaddedBits(decl, i) >= 0 THEN Static(PaddedBits(decl, i))
                 ELSE FieldSizeF(d, decl, i, fuel)
       IN Plus(me, DeclSizeFrom(d, decl, i + 1, fuel))

DeclSizeOf(d, id) ==
  LET decl == DeclOf(d, id) IN
  IF decl.kind \in {"packet", "struct", "group"} THEN DeclSizeFrom(d, decl, 1, 8)
  ELSE IF decl.kind \in {"enum", "checksum"} THEN Static(decl.width)
  ELSE IF decl.kind = "custom" THEN (IF decl.width >= 0 THEN Static(decl.width) ELSE Dynamic)
  ELSE Static(0)

PayloadSizeOf(d, id) ==
  LET decl == DeclOf(d, id) IN
  IF decl.kind \in {"packet", "struct", "group"} /\ HasPayload(decl)
  THEN FieldSizeF(d, decl, PayloadIndex(decl), 8) ELSE Static(0)

ParentSizeF(d, id, fuel) ==
  LET decl == DeclOf(d, id) IN
  IF fuel = 0 \/ ~HasParent(decl) \/ ~HasDecl(d, decl.parent) THEN Static(0)
  ELSE Plus(DeclSizeOf(d, decl.parent), ParentSizeF(d, decl.parent, fuel - 1))

TotalSizeF(d, id, fuel) ==
  IF fuel = 0 THEN Unknown
  ELSE LET decl == DeclOf(d, id) IN
       IF decl.kind \in {"packet", "struct", "group"}
       THEN Plus(Plus(DeclSizeFrom(d, decl, 1, fuel - 1), ParentSizeF(d, id, 8)),
                 IF HasPayload(decl) THEN FieldSizeF(d, decl, PayloadIndex(decl), fuel - 1) ELSE Static(0))
       ELSE DeclSizeOf(d, id)

TotalSizeOf(d, id) == TotalSizeF(d, id, 8)
FieldSizeOf(d, id, i) == FieldSizeF(d, DeclOf(d, id), i, 8)

(* element size / array size classifications used by the python and c++ generators *)
ElementSizeOf(d, id, i) ==
  LET decl == DeclOf(d, id)  f == decl.fields[i] IN
  IF f.kind # "array" THEN Unknown
  ELSE IF f.type = "" THEN Static(f.width \div 8)
  ELSE IF ~HasDecl(d, f.type) THEN Unknown
  ELSE LET t == TotalSizeOf(d, f.type) IN
       IF t.k = "static" THEN Static(t.n \div 8)
       ELSE IF HasElemSizeField(decl, f.id) THEN Dynamic
       ELSE Unknown

ArraySizeOf(d, id, i) ==
  LET decl == DeclOf(d, id)  f == decl.fields[i] IN
  IF f.kind # "array" THEN [k |-> "unknown", n |-> 0]
  ELSE IF f.count >= 0 THEN [k |-> "static_count", n |-> f.count]
  ELSE IF HasCountField(decl, f.id) /\ HasSizeField(decl, f.id)
       THEN (LET ci == CHOOSE x \in 1..Len(decl.fields) : decl.fields[x].kind \in {"size", "count"} /\ decl.fields[x].target = f.id
                        /\ \A y \in 1..Len(decl.fields) : (decl.fields[y].kind \in {"size", "count"} /\ decl.fields[y].target = f.id) => x <= y
             IN [k |-> IF decl.fields[ci].kind = "count" THEN "dynamic_count" ELSE "dynamic_size", n |-> 0])
  ELSE IF HasCountField(decl, f.id) THEN [k |-> "dynamic_count", n |-> 0]
  ELSE IF HasSizeField(decl, f.id) THEN [k |-> "dynamic_size", n |-> 0]
  ELSE [k |-> "unknown", n |-> 0]

(* everything the driver's `schema` stage reports, for one description *)
SchemaOf(d) ==
  LET ds == SelectSeq(d.decls, LAMBDA x : x.kind # "test") IN
  [i \in 1..Len(ds) |->
     [id |-> ds[i].id,
      decl_size |-> DeclSizeOf(d, ds[i].id),
      parent_size |-> ParentSizeF(d, ds[i].id, 8),
      payload_size |-> PayloadSizeOf(d, ds[i].id),
      total_size |-> TotalSizeOf(d, ds[i].id),
      fields |-> [j \in 1..Len(ds[i].fields) |->
                    [i |-> j,
                     field_size |-> FieldSizeOf(d, ds[i].id, j),
                     padded_size |-> PaddedBits(ds[i], j),
                     element_size |-> ElementSizeOf(d, ds[i].id, j),
                     array_size |-> ArraySizeOf(d, ds[i].id, j)]]]]

=============================================================================
