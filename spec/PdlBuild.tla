------------------------------ MODULE PdlBuild ------------------------------
(***************************************************************************)
(* The description builder: a state machine whose behaviours are PDL       *)
(* descriptions written declaration by declaration, field by field, the    *)
(* way a user writes them.  It quantifies over *programs* beyond the       *)
(* hand-made kit: TLC in simulation mode draws every choice at random, so   *)
(* one behaviour = one description of the grammar below; the exhaustive    *)
(* configuration (small bounds) enumerates all of them.                    *)
(*                                                                         *)
(* The builder keeps just enough bookkeeping (bit offset inside the open   *)
(* bit-field group, whether a payload exists, whether only statically      *)
(* sized fields may still follow) to make *most* behaviours well-formed;   *)
(* whether a finished description IS well-formed and inside a backend's    *)
(* supported class is decided by PdlAnalyzer.Verdict and PdlSupport, not   *)
(* here.  Rejected ones are printed too (with the codes the analyzer must  *)
(* report).                                                                *)
(*                                                                         *)
(* Named deviations: shapes on which the implementation is already known   *)
(* to break a property (recorded in known_findings.json with a kit         *)
(* description each) are not generated again under fresh names:            *)
(*   Dev_NoElementSize, Dev_NoCustom, Dev_NoCount64 (rust count*width      *)
(*   overflow), Dev_NoOddWidthArrays (rust writes 24/40/48/56-bit array    *)
(*   elements without a range check).                                      *)
(***************************************************************************)
EXTENDS PdlGen, FiniteSets, SequencesExt

CONSTANTS MaxDecls,      \* packets + structs + groups
          MaxFields,     \* field clusters per declaration
          MaxEnums

NoDecl == [kind |-> "none", id |-> "", width |-> 0, tags |-> <<>>, parent |-> "", cons |-> <<>>, fields |-> <<>>, fn |-> ""]
MkDecl(kind, id, parent, cons) == [NoDecl EXCEPT !.kind = kind, !.id = id, !.parent = parent, !.cons = cons]
MkEnum(id, w, tags) == [NoDecl EXCEPT !.kind = "enum", !.id = id, !.width = w, !.tags = tags]
MkReserved(w) == [F0 EXCEPT !.kind = "reserved", !.width = w]
MkFixed(v, w) == [F0 EXCEPT !.kind = "fixed", !.v = v, !.width = w]
MkPayload(kind, mod) == [F0 EXCEPT !.kind = kind, !.mod = mod]
MkPadding(n) == [F0 EXCEPT !.kind = "padding", !.size = n]
MkArrayT(id, ty, c) == [F0 EXCEPT !.kind = "array", !.id = id, !.type = ty, !.count = c]
OptF(f, flag, v) == [f EXCEPT !.cond = flag, !.condv = v]

L(n) == IF n = 0 THEN <<>> ELSE IF n < 256 THEN <<n>> ELSE <<n % 256, n \div 256>>     \* n < 65536

(* the enum palette: closed / open / ranges, widths on and off octet boundaries, 64 bits *)
EnumPalette ==
  { MkEnum("Ea", 8, <<MkTag("A", L(1)), MkTag("B", L(2))>>),
    MkEnum("Eb", 8, <<MkTag("A", L(0)), MkTag("B", L(255)), MkOther("X")>>),
    MkEnum("Ec", 4, <<MkTag("A", L(0)), MkRange("R", L(2), L(9)), MkTag("Z", L(15))>>),
    MkEnum("Ed", 16, <<MkTag("A", L(258)), MkRange("R", L(4096), L(8191))>>),
    MkEnum("Ee", 24, <<MkTag("A", L(1)), MkTag("B", <<86, 52, 18>>)>>),
    MkEnum("Ef", 3, <<MkTag("A", L(1)), MkTag("B", L(5)), MkOther("U")>>),
    MkEnum("Eg", 1, <<MkTag("A", L(0)), MkTag("B", L(1))>>),
    MkEnum("Eh", 64, <<MkTag("A", L(7)), MkTag("B", <<0, 0, 0, 0, 0, 0, 0, 128>>)>>),
    MkEnum("Ei", 12, <<MkRange("R", L(0), L(4095))>>) }

ScalarWidths == {1, 2, 3, 4, 5, 6, 7, 8, 9, 12, 15, 16, 17, 24, 31, 32, 33, 40, 48, 56, 63, 64}
ElemWidths == {8, 16, 32, 64}                \* Dev_NoOddWidthArrays: 24/40/48/56-bit scalar elements are kit-only
ExtentWidths == {2, 4, 8, 12, 16}            \* Dev_NoCount64: wide count fields are kit-only
PadOctets == {4, 8, 9}
StaticCounts == {0, 1, 2, 3}

VARIABLES ds,      \* finished declarations
          cur,     \* the declaration being written, or NoDecl
          bits,    \* bits in the currently open bit-field group of cur
          haspl,   \* cur has a payload / body
          tailstatic,  \* an unsized payload precedes: only statically sized fields may follow
          final,   \* an unbounded array was written: nothing may follow
          nf,      \* clusters written into cur
          nid,     \* identifiers handed out
          want,    \* the kind of step decided on (simulation draws the kind first, then its parameters, so
                   \* that kinds with many parameter combinations do not crowd out the others)
          done
bvars == <<ds, cur, bits, haspl, tailstatic, final, nf, nid, want, done>>

Fid(n) == "f" \o ToString(n)
Did(n) == "D" \o ToString(n)

Idle == cur.kind = "none"
Writing == cur.kind # "none" /\ ~done
NPS == Cardinality({i \in 1..Len(ds) : ds[i].kind \in {"packet", "struct", "group"}})
NEnum == Cardinality({i \in 1..Len(ds) : ds[i].kind = "enum"})
EnumIds == {ds[i].id : i \in {j \in 1..Len(ds) : ds[j].kind = "enum"}}
EnumW(id) == ds[CHOOSE i \in 1..Len(ds) : ds[i].id = id].width
StructIds == {ds[i].id : i \in {j \in 1..Len(ds) : ds[j].kind = "struct"}}
GroupIds == {ds[i].id : i \in {j \in 1..Len(ds) : ds[j].kind = "group"}}
DD == [endian |-> "little", decls |-> ds]

Put(fs, nb, isfinal, k) ==
  /\ cur' = [cur EXCEPT !.fields = @ \o fs]
  /\ bits' = nb /\ final' = isfinal /\ nf' = nf + 1 /\ nid' = nid + k
  /\ want' = ""
  /\ UNCHANGED <<ds, done>>

Init ==
  /\ ds = <<>> /\ cur = NoDecl /\ bits = 0 /\ haspl = FALSE /\ tailstatic = FALSE /\ final = FALSE
  /\ nf = 0 /\ nid = 1 /\ want = "" /\ done = FALSE

AddEnum ==
  /\ want = "enum" /\ ~done /\ Idle /\ NEnum < MaxEnums
  /\ \E e \in EnumPalette : e.id \notin EnumIds /\ ds' = Append(ds, e)
  /\ want' = ""
  /\ UNCHANGED <<cur, bits, haspl, tailstatic, final, nf, nid, done>>

(* fields of an ancestor chain that a child may constrain: named scalars that are no flags,      *)
(* enum-typed fields; each at most once along the chain                                           *)
Constrainable(parent) ==
  LET fs == ScopeFields(DD, parent, 8)
      used == {AncestorCons(DD, parent, 8)[k].id : k \in 1..Len(AncestorCons(DD, parent, 8))}
  IN {k \in 1..Len(fs) :
        /\ fs[k].id # "" /\ fs[k].cond = "" /\ fs[k].id \notin used /\ ~IsFlagIn(fs, fs[k])
        /\ \/ fs[k].kind = "scalar"
           \/ (fs[k].kind = "typedef" /\ fs[k].type \in EnumIds)}

ConsOf(f, pick) ==
  IF f.kind = "scalar"
  THEN MkCons(f.id, IF pick = 1 THEN <<>> ELSE IF pick = 2 THEN L(1) ELSE MaxL(f.width), "")
  ELSE LET e == DeclOf(DD, f.type)
           named == SelectSeq(e.tags, LAMBDA t : t.k = "value")
       IN MkCons(f.id, <<>>, IF named = <<>> THEN "NoSuchTag" ELSE named[((pick - 1) % Len(named)) + 1].id)

OpenDecl ==
  /\ want \in {"open", "child"} /\ ~done /\ Idle /\ NPS < MaxDecls
  /\ \E kind \in {"packet", "struct"} :
     \E parent \in (IF want = "open" THEN {""} ELSE {ds[i].id : i \in {j \in 1..Len(ds) : ds[j].kind = kind /\ HasPayload(ds[j])}}) :
       IF parent = ""
       THEN cur' = MkDecl(kind, Did(nid), "", <<>>)
       ELSE LET fs == ScopeFields(DD, parent, 8) IN
            \E cset \in {cs0 \in SUBSET Constrainable(parent) : Cardinality(cs0) <= 2} : \E pick \in 1..3 :
               cur' = MkDecl(kind, Did(nid), parent,
                             LET sq == SetToSeq(cset) IN [k \in 1..Len(sq) |-> ConsOf(fs[sq[k]], pick)])
  /\ nid' = nid + 1 /\ bits' = 0 /\ haspl' = FALSE /\ tailstatic' = FALSE /\ final' = FALSE /\ nf' = 0
  /\ want' = ""
  /\ UNCHANGED <<ds, done>>

OpenGroup ==
  /\ want = "opengroup" /\ ~done /\ Idle /\ NPS < MaxDecls /\ GroupIds = {}
  /\ cur' = MkDecl("group", Did(nid), "", <<>>)
  /\ nid' = nid + 1 /\ bits' = 0 /\ haspl' = FALSE /\ tailstatic' = FALSE /\ final' = FALSE /\ nf' = 0
  /\ want' = ""
  /\ UNCHANGED <<ds, done>>

(* a bit-field group is closed at the first octet boundary (App. A.1) *)
NB(b) == IF b % 8 = 0 THEN 0 ELSE b

Room == Writing /\ ~final /\ nf < MaxFields

(* ---- bit-fields: may be written at any bit offset; the group may not exceed 64 bits ---- *)
AddBitfield ==
  /\ want = "bits" /\ Room
  /\ \/ \E w \in ScalarWidths : bits + w <= 64 /\ Put(<<MkScalar(Fid(nid), w)>>, NB(bits + w), FALSE, 1)
     \/ \E w \in {1, 3, 7, 8, 13} : bits + w <= 64 /\ Put(<<MkReserved(w)>>, NB(bits + w), FALSE, 0)
     \/ \E w \in {2, 8, 11, 16} : bits + w <= 64 /\ Put(<<MkFixed(L(w + 1), w)>>, NB(bits + w), FALSE, 0)
     \/ \E e \in EnumIds : bits + EnumW(e) <= 64 /\
           Put(<<MkTypedef(Fid(nid), e)>>, NB(bits + EnumW(e)), FALSE, 1)
     \/ \E e \in EnumIds : bits + EnumW(e) <= 64 /\ DeclOf(DD, e).tags[1].k = "value" /\
           Put(<<MkFixedEnum(DeclOf(DD, e).tags[1].id, e)>>, NB(bits + EnumW(e)), FALSE, 0)
  /\ UNCHANGED <<haspl, tailstatic>>

(* close the open group at the next octet boundary *)
AlignUp ==
  /\ want = "align" /\ Writing /\ bits % 8 # 0
  /\ LET w == 8 - (bits % 8) IN
     \/ Put(<<MkReserved(w)>>, 0, final, 0)
     \/ Put(<<MkScalar(Fid(nid), w)>>, 0, final, 1)
  /\ UNCHANGED <<haspl, tailstatic>>

Aligned == bits % 8 = 0

(* an extent field of width w followed by what brings the group back to an octet boundary *)
Extent(kind, target, w, id) ==
  IF w % 8 = 0 THEN <<MkSize(kind, target, w)>>
  ELSE <<MkSize(kind, target, w), MkScalar(id, 8 - (w % 8))>>

ElemChoices == [w : ElemWidths, ty : {""}] \cup [w : {0}, ty : {e \in EnumIds : EnumW(e) % 8 = 0} \cup StructIds]
ElemOf(el, id, c) == IF el.ty = "" THEN MkArray(id, el.w, c) ELSE MkArrayT(id, el.ty, c)

AddArray ==
  /\ want = "array" /\ Room /\ Aligned /\ cur.kind # "group"
  /\ \E el \in ElemChoices :
       LET a == Fid(nid) IN
       \/ \E c \in StaticCounts : Put(<<ElemOf(el, a, c)>>, 0, FALSE, 1)
       \/ \E c \in StaticCounts : \E p \in PadOctets : Put(<<ElemOf(el, a, c), MkPadding(p)>>, 0, FALSE, 1)
       \/ ~tailstatic /\ \E w \in ExtentWidths : \E k \in {"size", "count"} :
              Put(Extent(k, a, w, Fid(nid + 1)) \o <<ElemOf(el, a, -1)>>, 0, FALSE, 2)
       \/ ~tailstatic /\ \E w \in ExtentWidths : \E k \in {"size", "count"} : \E p \in PadOctets :
              Put(Extent(k, a, w, Fid(nid + 1)) \o <<ElemOf(el, a, -1), MkPadding(p)>>, 0, FALSE, 2)
       \/ ~tailstatic /\ Put(<<ElemOf(el, a, -1)>>, 0, TRUE, 1)                         \* to the end of the packet
       \/ ~tailstatic /\ \E p \in PadOctets : Put(<<ElemOf(el, a, -1), MkPadding(p)>>, 0, FALSE, 1)
  /\ UNCHANGED <<haspl, tailstatic>>

AddPayload ==
  /\ want = "payload" /\ Room /\ Aligned /\ ~haspl /\ ~tailstatic /\ cur.kind # "group"
  /\ \/ \E k \in {"payload", "body"} :
          /\ Put(<<MkPayload(k, -1)>>, 0, FALSE, 0) /\ tailstatic' = TRUE
     \/ \E w \in ExtentWidths : \E m \in {-1, 1, 2} :
          /\ Put(Extent("size", "_payload_", w, Fid(nid)) \o <<MkPayload("payload", m)>>, 0, FALSE, 1)
          /\ tailstatic' = tailstatic
     \/ \E w \in ExtentWidths :
          /\ Put(Extent("size", "_body_", w, Fid(nid)) \o <<MkPayload("body", -1)>>, 0, FALSE, 1)
          /\ tailstatic' = tailstatic
  /\ haspl' = TRUE

(* optional fields: one flag, or two optional fields sharing a flag (same or opposite value) *)
OptBody(id, flag, v) ==
  {OptF(MkScalar(id, w), flag, v) : w \in {8, 16, 24, 40, 64}}
  \cup {OptF(MkTypedef(id, e), flag, v) : e \in {x \in EnumIds : EnumW(x) % 8 = 0}}
  \cup {OptF(MkTypedef(id, s), flag, v) : s \in StructIds}

AddOptional ==
  /\ want = "opt" /\ Room /\ Aligned /\ ~tailstatic /\ cur.kind # "group"
  /\ LET c == Fid(nid)  x == Fid(nid + 1)  y == Fid(nid + 2) IN
     \/ \E v \in {0, 1} : \E o \in OptBody(x, c, v) :
           Put(<<MkScalar(c, 1), MkReserved(7), o>>, 0, FALSE, 2)
     \/ \E v \in {0, 1} : \E v2 \in {0, 1} : \E o \in OptBody(x, c, v) : \E o2 \in OptBody(y, c, v2) :
           Put(<<MkScalar(c, 1), MkScalar(Fid(nid + 3), 7), o, o2>>, 0, FALSE, 4)
  /\ UNCHANGED <<haspl, tailstatic>>

AddStructField ==
  /\ want = "struct" /\ Room /\ Aligned /\ cur.kind # "group"
  /\ \E s \in StructIds : Put(<<MkTypedef(Fid(nid), s)>>, 0, FALSE, 1)
  /\ UNCHANGED <<haspl, tailstatic>>

(* a group used with no, a scalar or an enum constraint *)
AddGroupUse ==
  /\ want = "group" /\ Room /\ Aligned /\ cur.kind # "group"
  /\ \E g \in GroupIds :
       LET gd == DeclOf(DD, g)
           sc == {k \in 1..Len(gd.fields) : gd.fields[k].kind = "scalar" /\ gd.fields[k].id # ""}
           en == {k \in 1..Len(gd.fields) : gd.fields[k].kind = "typedef" /\ gd.fields[k].type \in EnumIds}
       IN \/ Put(<<MkGroupF(g)>>, 0, FALSE, 0)
          \/ \E k \in sc \cup en : \E pick \in 1..3 :
                Put(<<[MkGroupF(g) EXCEPT !.cons = <<ConsOf(gd.fields[k], pick)>>]>>, 0, FALSE, 0)
  /\ UNCHANGED <<haspl, tailstatic>>

(* Ref (grammar): the field list of a group is mandatory; packets and structs may be empty *)
CloseDecl ==
  /\ want = "close" /\ Writing /\ Aligned /\ (cur.kind = "group" => cur.fields # <<>>)
  /\ ds' = Append(ds, cur) /\ cur' = NoDecl /\ want' = ""
  /\ UNCHANGED <<bits, haspl, tailstatic, final, nf, nid, done>>

Finish ==
  /\ want = "finish" /\ ~done /\ Idle /\ \E i \in 1..Len(ds) : ds[i].kind \in {"packet", "struct"}
  /\ done' = TRUE /\ want' = ""
  /\ UNCHANGED <<ds, cur, bits, haspl, tailstatic, final, nf, nid>>

(* the kind of the next step; a kind is offered only when its action is enabled *)
Decide ==
  /\ want = "" /\ ~done
  /\ want' \in
       IF Idle
       THEN (IF NEnum < MaxEnums THEN {"enum"} ELSE {})
            \cup (IF NPS < MaxDecls THEN {"open"} ELSE {})
            \cup (IF NPS < MaxDecls /\ \E j \in 1..Len(ds) : ds[j].kind \in {"packet", "struct"} /\ HasPayload(ds[j]) THEN {"child"} ELSE {})
            \cup (IF NPS < MaxDecls /\ GroupIds = {} THEN {"opengroup"} ELSE {})
            \cup (IF \E i \in 1..Len(ds) : ds[i].kind \in {"packet", "struct"} THEN {"finish"} ELSE {})
       ELSE (IF ~Aligned THEN {"align"} ELSE IF cur.kind = "group" /\ cur.fields = <<>> THEN {} ELSE {"close"})
            \cup (IF ~final /\ nf < MaxFields THEN {"bits"} ELSE {})
            \cup (IF ~final /\ nf < MaxFields /\ Aligned /\ cur.kind # "group"
                  THEN {"array"} \cup (IF ~haspl /\ ~tailstatic THEN {"payload"} ELSE {})
                       \cup (IF ~tailstatic THEN {"opt"} ELSE {})
                       \cup (IF StructIds # {} THEN {"struct"} ELSE {})
                       \cup (IF GroupIds # {} THEN {"group"} ELSE {})
                  ELSE {})
  /\ UNCHANGED <<ds, cur, bits, haspl, tailstatic, final, nf, nid, done>>

BNext == Decide \/ AddEnum \/ OpenDecl \/ OpenGroup \/ AddBitfield \/ AlignUp \/ AddArray \/ AddPayload \/ AddOptional
           \/ AddStructField \/ AddGroupUse \/ CloseDecl \/ Finish
BSpec == Init /\ [][BNext]_bvars

(* ---- what the builder guarantees by construction (checked as invariants of the machine) ---- *)
BuildTypeOK ==
  /\ bits \in 0..63 /\ nf \in 0..(MaxFields + 1) /\ NPS <= MaxDecls
  /\ (Idle => bits = 0)

(* identifiers are unique within the description *)
UniqueIds ==
  /\ \A i, j \in 1..Len(ds) : i # j => ds[i].id # ds[j].id
  /\ \A i \in 1..Len(ds) : \A a, b \in 1..Len(ds[i].fields) :
        (a # b /\ ds[i].fields[a].id # "") => ds[i].fields[a].id # ds[i].fields[b].id

(* every finished declaration ends on an octet boundary (no E51 by construction for local fields) *)
=============================================================================
