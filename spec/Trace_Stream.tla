---------------------------- MODULE Trace_Stream ----------------------------
(***************************************************************************)
(* Trace validation of *histories with state* (C18, and the stream use of  *)
(* C01/C04): a caller decodes packet after packet from one slice with      *)
(* decode_mut, and encodes value after value into one buffer with encode.  *)
(*                                                                         *)
(* The abstract state is what the caller holds between calls:              *)
(*   rem - the octets still in the slice,                                  *)
(*   out - the content of the output buffer.                               *)
(* One action per public call, logged at its return with arguments,        *)
(* result and the cheap scalar state (length of the slice after the call,  *)
(* the buffer after the call):                                             *)
(*   DecodeMut   ok : the value is the reference value of the head of rem; *)
(*                    the slice is advanced to exactly the reference       *)
(*                    remainder (rem' = rest)                              *)
(*               err: class in the reference fault set, slice untouched    *)
(*   EncodeInto  ok : out' = out \o reference bytes (appended, nothing     *)
(*                    before it disturbed)                                 *)
(*               err: class in the fault set; what was in the buffer is    *)
(*                    still its prefix                                     *)
(* A run (one history) is accepted iff every event is consumed in order;   *)
(* there is no action for a panic, a timeout, a slice that moved on error  *)
(* or a buffer whose old content changed.                                  *)
(***************************************************************************)
EXTENDS PdlInherit, PdlSupport, Json, IOUtils, SequencesExt

Descs == ndJsonDeserialize(IOEnv.DESCS)
Runs == ndJsonDeserialize(IOEnv.TRACE)

VARIABLES r, l, rem, out
svars == <<r, l, rem, out>>

Dsc(run) == InlineGroups(Descs[run.d])
Ev == Runs[r].events[l]

Init == r \in 1..Len(Runs) /\ l = 1 /\ rem = Runs[r].bytes /\ out = Runs[r].prefix

IsEvent(name) == l <= Len(Runs[r].events) /\ Ev.op = name /\ l' = l + 1 /\ UNCHANGED r

(* Each action is the conjunction of a *result* condition (what a single call returns: owned by C03 / C04 / C05,  *)
(* which have their own stimuli) and a *state* condition (what the call does to the caller's slice / buffer: the   *)
(* laws of C18).  WhyNot names the first one that fails, so that a rejected history is attributed correctly.      *)
DecRef == DecodeType(Dsc(Runs[r]), Runs[r].type, rem)
EncRef == EncodeType(Dsc(Runs[r]), Runs[r].type, Ev.val)
EncOutside(x) == x.faults \cap {"Unsupported", "BadValue", "InvalidEnumValue"} # {}

DecResultOk(x) ==
  \/ "Unsupported" \in x.faults
  \/ x.faults = {} /\ Ev.res.kind = "ok" /\ SameVal(Ev.res.val, x.val)
  \/ x.faults # {} /\ Ev.res.kind = "err" /\ Ev.res.cls \in x.faults
(* decode_mut advances the slice to exactly decode's remainder, and leaves it untouched on error *)
DecStateOk(x) ==
  IF Ev.res.kind = "err" THEN Ev.after = Len(rem)
  ELSE IF x.faults = {} THEN Ev.after = Len(x.rest)
  ELSE Ev.after <= Len(rem)

DecodeMut ==
  /\ IsEvent("decode_mut")
  /\ LET x == DecRef IN
     /\ DecResultOk(x) /\ DecStateOk(x)
     /\ rem' = SubSeq(rem, Len(rem) - Ev.after + 1, Len(rem))
  /\ UNCHANGED out

EncResultOk(x) ==
  \/ EncOutside(x)
  \/ x.faults = {} /\ Ev.res.kind = "ok"
  \/ x.faults # {} /\ Ev.res.kind = "err" /\ Ev.res.cls \in x.faults
(* encoding appends to the buffer: what was there is still its prefix; on success exactly the encoding follows it *)
EncStateOk(x) ==
  /\ IsPrefix(out, Ev.buf)
  /\ (x.faults = {} /\ Ev.res.kind = "ok") => Ev.buf = out \o x.bytes

EncodeInto ==
  /\ IsEvent("encode_into")
  /\ LET x == EncRef IN EncResultOk(x) /\ EncStateOk(x)
  /\ out' = Ev.buf
  /\ UNCHANGED rem

WhyNot ==
  IF l > Len(Runs[r].events) THEN "done"
  ELSE IF Ev.op = "decode_mut"
       THEN (IF ~DecResultOk(DecRef) THEN "result" ELSE IF ~DecStateOk(DecRef) THEN "state" ELSE "step")
  ELSE IF Ev.op = "encode_into"
       THEN (IF ~EncResultOk(EncRef) THEN "result" ELSE IF ~EncStateOk(EncRef) THEN "state" ELSE "step")
  ELSE "unknown"

Next == DecodeMut \/ EncodeInto
Spec == Init /\ [][Next]_svars

(* ---- invariants of every accepted prefix of a history ---- *)
(* the slice only ever shrinks from the front: rem is a suffix of the input *)
SuffixInv == IsSuffix(rem, Runs[r].bytes)
(* the buffer only ever grows at the end: the caller's prefix is never disturbed *)
PrefixInv == IsPrefix(Runs[r].prefix, out)

(* how far each history got: it is accepted iff l reaches Len(events) + 1; for a rejected one the highest l *)
(* is the first event that is no step of the specification                                                *)
Progress == PrintT(<<"AT", ToJson([rid |-> Runs[r].rid, l |-> l, why |-> WhyNot])>>)

=============================================================================
