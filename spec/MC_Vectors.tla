----------------------------- MODULE MC_Vectors -----------------------------
(***************************************************************************)
(* Replay-vector machine (direction R of DESIGN.md): for every job         *)
(* (description, type, mode) TLC enumerates the stimuli PdlStim derives    *)
(* from the layout, runs the reference encoder / decoder on each, checks   *)
(* the model-level theorems on it (invariants below - a violation here     *)
(* means the *specification* is incoherent and is reported as a tool       *)
(* error, never as a verdict on the code), and prints one JSON line per    *)
(* stimulus with the expected observable result.                           *)
(*                                                                         *)
(* State: job (fixed per behaviour), stim.  One initial state per job, one *)
(* successor per stimulus, so TLC's workers generate and judge stimuli of  *)
(* different jobs in parallel.                                             *)
(***************************************************************************)
EXTENDS PdlInherit, PdlDev, PdlSchema, Json, IOUtils

Descs == ndJsonDeserialize(IOEnv.DESCS)
Jobs == ndJsonDeserialize(IOEnv.JOBS)

VARIABLES job, stim
vars == <<job, stim>>

D(j) == InlineGroups(Descs[Jobs[j].d])
T(j) == Jobs[j].type

None == [k |-> "none", bytes |-> <<>>, val |-> NoneV, label |-> <<>>]
EncStim(v, label) == [k |-> "enc", bytes |-> <<>>, val |-> v, label |-> label]
DecStim(b, label) == [k |-> "dec", bytes |-> b, val |-> NoneV, label |-> label]

WellFormed(d, id, vs) == {v \in vs : EncodeType(d, id, v).faults = {}}

(* byte strings derived from reference encodings of the boundary values *)
(* single-fault mutants of the default encoding of every descendant X of P (sizes, counts, fixed fields, flags and *)
(* the fields fixed by constraints forced to other values), to be read through the ancestor P                       *)
DescMutants(d, sub) ==
  UNION {{[bytes |-> m.bytes, label |-> <<"descmut", X>> \o m.label] : m \in SemanticMutants(d, X, DefaultVal(d, X))}
           : X \in sub}

(* the default encoding of every descendant cut short and extended by a few octets: read through the ancestor, the  *)
(* constraints still select the descendant but its payload no longer has the right length                            *)
DescResized(d, sub) ==
  UNION {LET e == EncodeType(d, X, DefaultVal(d, X)).bytes IN
         {[bytes |-> b, label |-> <<"descprefix", X>>] : b \in Prefixes(e)}
         \cup {[bytes |-> b, label |-> <<"descextend", X>>] : b \in Extensions(e)}
           : X \in sub}

DecStimuli(d, id) ==
  LET vs == WellFormed(d, id, ValSet(d, id) \cup PresenceSet(d, id))
      base == DefaultVal(d, id)
      big == IF BigVal(d, id) \in vs THEN BigVal(d, id) ELSE base
      encs == {EncodeType(d, id, v).bytes : v \in vs}
      e0 == EncodeType(d, id, base).bytes
      e1 == EncodeType(d, id, big).bytes
      sem == SemanticMutants(d, id, base) \cup SemanticMutants(d, id, big)
             \cup EnumMutants(d, id, base) \cup EnumMutants(d, id, big)
             \cup PaddingMutants(d, id, base) \cup PaddingMutants(d, id, big)
  IN {DecStim(b, <<"valid">>) : b \in encs}
     \cup {DecStim(b, <<"prefix">>) : b \in Prefixes(e0) \cup Prefixes(e1)}
     \cup {DecStim(b, <<"extend">>) : b \in Extensions(e0) \cup Extensions(e1)}
     \cup {DecStim(m.bytes, m.label) : m \in sem}
     (* two faults at once: a single-fault mutant of the default value with octets appended (the laws between   *)
     (* decode, decode_full and decode_mut must hold whatever the reason of a failure is)                      *)
     \cup {DecStim(m.bytes \o <<0, 255>>, <<"extmut">> \o m.label)
            : m \in SemanticMutants(d, id, base) \cup EnumMutants(d, id, base)}
     \cup {DecStim(b, <<"bitflip">>) : b \in BitFlips(e0) \cup BitFlips(e1)}
     \cup {DecStim(b, <<"fill">>) : b \in ByteFills(e0) \cup ByteFills(e1)}

StimuliFor(j) ==
  LET d == D(j)  id == T(j)  m == Jobs[j].mode IN
  CASE m = "enc"  -> {EncStim(v, <<"valset">>) : v \in ValSet(d, id) \cup PresenceSet(d, id)}
    [] m = "bad"  -> {EncStim(x.v, x.label) : x \in BadValSet(d, id)}
    [] m = "encx" -> IF VarBits(d, id) <= Jobs[j].n
                     THEN {EncStim(v, <<"all">>) : v \in AllValues(d, id)} ELSE {}
    [] m = "dec"  -> DecStimuli(d, id)
    [] m = "decx" -> {DecStim(b, <<"short">>) : b \in AllShort(Jobs[j].n)}
    [] m \in {"spec", "down"} ->
         (* byte strings of the ancestor P = Jobs[j].anc: its own stimuli plus the      *)
         (* reference encodings of the boundary values of every descendant              *)
         LET P == Jobs[j].anc
             sub == Descendants(d, P, 6)
             encs == UNION {{EncodeType(d, X, v).bytes : v \in WellFormed(d, X, ValSet(d, X))} : X \in sub}
         IN {[k |-> m, bytes |-> b, val |-> NoneV, label |-> <<"descendant">>] : b \in encs}
            \cup {[k |-> m, bytes |-> s.bytes, val |-> NoneV, label |-> s.label] : s \in DecStimuli(d, P)}
            \cup {[k |-> m, bytes |-> s.bytes, val |-> NoneV, label |-> s.label] : s \in DescMutants(d, sub)}
            \cup {[k |-> m, bytes |-> s.bytes, val |-> NoneV, label |-> s.label] : s \in DescResized(d, sub)}
    [] m = "javaparse" ->
         LET sub == Descendants(d, id, 6)
             encs == UNION {{EncodeType(d, X, v).bytes : v \in WellFormed(d, X, ValSet(d, X))} : X \in sub}
         IN {[k |-> "javaparse", bytes |-> b, val |-> NoneV, label |-> <<"descendant">>] : b \in encs}
            \cup {[k |-> "javaparse", bytes |-> s.bytes, val |-> NoneV, label |-> s.label] : s \in DecStimuli(d, id)}
            \cup {[k |-> "javaparse", bytes |-> s.bytes, val |-> NoneV, label |-> s.label] : s \in DescMutants(d, sub)}
            \cup {[k |-> "javaparse", bytes |-> s.bytes, val |-> NoneV, label |-> s.label] : s \in DescResized(d, sub)}
    [] m = "pyparse" ->
         LET sub == Descendants(d, id, 6)
             encs == UNION {{EncodeType(d, X, v).bytes : v \in WellFormed(d, X, ValSet(d, X))} : X \in sub}
         IN {[k |-> "pyparse", bytes |-> b, val |-> NoneV, label |-> <<"descendant">>] : b \in encs}
            \cup {[k |-> "pyparse", bytes |-> s.bytes, val |-> NoneV, label |-> s.label] : s \in DecStimuli(d, id)}
            \cup {[k |-> "pyparse", bytes |-> s.bytes, val |-> NoneV, label |-> s.label] : s \in DescMutants(d, sub)}
            \cup {[k |-> "pyparse", bytes |-> s.bytes, val |-> NoneV, label |-> s.label] : s \in DescResized(d, sub)}
    [] m = "up" ->
         {[k |-> "up", bytes |-> <<>>, val |-> v, label |-> <<"valset">>] : v \in WellFormed(d, id, ValSet(d, id))}
    [] m = "enum" ->
         (* C15: boundary neighbourhoods, integers at and above 2^w, and - when the   *)
         (* width allows (Jobs[j].n) - every integer below 2^w                        *)
         LET e == DeclOf(d, id)
             w == e.width
             bw == BackingWidth(w)
             inside == EnumBoundaryBits(e) \cup (IF w <= Jobs[j].n THEN AllBits(w) ELSE {})
             above == IF bw = w THEN {}
                      ELSE {OneHot(w + 1, w + 1), Ones(bw), OneHot(bw, bw), IncBits(OneHot(w + 1, w + 1))}
                           \cup {p \o Zeros(bw - w - 1) \o <<1>> : p \in EnumBoundaryBits(e)}
         IN {[k |-> "enum", bytes |-> LimbsOfBits(x), val |-> NoneV, label |-> <<"inside">>] : x \in inside}
            \cup {[k |-> "enum", bytes |-> LimbsOfBits(x), val |-> NoneV, label |-> <<"above">>] : x \in above}
    [] m = "info" -> {[k |-> "info", bytes |-> <<>>, val |-> NoneV, label |-> <<>>]}
    [] m = "schema" -> {[k |-> "schema", bytes |-> <<>>, val |-> NoneV, label |-> <<>>]}
    [] OTHER -> {}

Init == job \in 1..Len(Jobs) /\ stim = None
Next == stim.k = "none" /\ stim' \in StimuliFor(job) /\ UNCHANGED job
Spec == Init /\ [][Next]_vars

(* ------------------------- expected results --------------------------- *)
EncResult(j, s) ==
  LET d == D(j)  id == T(j)
      e == EncodeType(d, id, s.val)
      r == DecodeFull(d, id, e.bytes)
  IN [job |-> j, k |-> "enc", label |-> s.label, val |-> s.val,
      faults |-> e.faults, bytes |-> e.bytes, chunks |-> e.chunks,
      rt |-> e.faults = {} /\ r.faults = {} /\ r.val = s.val,
      root |-> Chain(d, id)[1].id,
      pyback |-> IF e.faults = {} THEN PyParse(d, Chain(d, id)[1].id, e.bytes)
                 ELSE [faults |-> {}, cls |-> "", val |-> NoneV],
      (* Java binding: may the dispatching entry point of the root reject these octets?  (a value of a parent type  *)
      (* whose fields match a child's constraints while its payload does not parse as that child)                    *)
      javareject |-> e.faults = {} /\ \E o \in JavaOutcomes(d, Chain(d, id)[1].id, e.bytes) : o.reject]

DecResult(j, s) ==
  LET d == D(j)  id == T(j)
      r == DecodeType(d, id, s.bytes)
      full == IF ~r.halt /\ r.rest # <<>> THEN r.faults \cup {"TrailingBytes"} ELSE r.faults
      re == IF full = {} THEN EncodeType(d, id, r.val) ELSE ERes({}, <<>>)
  IN [job |-> j, k |-> "dec", label |-> s.label, bytes |-> s.bytes,
      faults |-> r.faults, full |-> full, val |-> r.val, rest |-> Len(r.rest),
      refaults |-> re.faults, reenc |-> re.bytes]

(* the value schema of every packet/struct type: which fields a value carries, *)
(* in canonical order, and of what kind - used by the harness generators to    *)
(* move values in and out of statically typed targets (no semantics there)     *)
KindOfType(d, typeId) ==
  IF typeId = "" THEN "scalar"
  ELSE IF ~HasDecl(d, typeId) THEN "unknown"
  ELSE DeclOf(d, typeId).kind

FieldSchema(d, f) ==
  [name |-> f.id,
   kind |-> IF f.kind = "array" THEN "array" ELSE IF f.kind = "scalar" THEN "scalar" ELSE KindOfType(d, f.type),
   width |-> IF f.kind = "scalar" THEN f.width
             ELSE IF f.kind = "typedef" /\ HasDecl(d, f.type) THEN DeclOf(d, f.type).width ELSE 0,
   type |-> f.type, count |-> f.count, opt |-> IsOptional(f),
   ekind |-> IF f.kind = "array" THEN KindOfType(d, f.type) ELSE "",
   ewidth |-> IF f.kind # "array" THEN 0 ELSE IF f.type = "" THEN f.width
              ELSE IF HasDecl(d, f.type) THEN DeclOf(d, f.type).width ELSE 0]

TypeSchema(d, id) ==
  LET vf == ValueFields(d, id)
  IN [id |-> id, parent |-> DeclOf(d, id).parent, kind |-> DeclOf(d, id).kind,
      payload |-> LeafHasPayload(d, id),
      fields |-> [k \in 1..Len(vf) |-> FieldSchema(d, vf[k].decl.fields[vf[k].i])]]

InfoResult(j) ==
  LET d == D(j)
      ts == SelectSeq(d.decls, LAMBDA x : x.kind \in {"packet", "struct"})
  IN
  [job |-> j, k |-> "info", rust |-> RustSupported(d), py |-> PySupported(d),
   cxx |-> CxxSupported(d), java |-> JavaSupported(d),
   pyclean |-> PyClean(d), cxxclean |-> CxxClean(d), javaclean |-> JavaClean(d),
   types |-> [i \in 1..Len(ts) |-> TypeSchema(d, ts[i].id)]]

EnumResult(j, s) ==
  LET e == DeclOf(D(j), T(j))
      c == ClassOfLimbs(e, s.bytes)
  IN [job |-> j, k |-> "enum", label |-> s.label, x |-> s.bytes, class |-> c.class, tag |-> c.id,
      dflt |-> StripZeros(DefaultLimbs(e)), width |-> e.width]

SpecResult(j, s) ==
  LET d == D(j)  P == Jobs[j].anc
      r == DecodeFull(d, P, s.bytes)
  IN [job |-> j, k |-> "spec", label |-> s.label, bytes |-> s.bytes, pfaults |-> r.faults,
      outcomes |-> IF r.faults = {} THEN SpecializeOutcomes(d, P, r.val) ELSE {},
      unambiguous |-> Unambiguous(d, P)]

DownResult(j, s) ==
  LET d == D(j)  P == Jobs[j].anc  X == T(j)
      r == DecodeFull(d, P, s.bytes)
      dn == IF r.faults = {} THEN Down(d, P, X, r.val) ELSE [faults |-> {}, val |-> NoneV]
      chain == Chain(d, X)
      first == chain[IndexIn(chain, P) + 1]
      vis == IF r.faults = {} THEN r.val ELSE S(<<>>, <<>>)
  IN [job |-> j, k |-> "down", label |-> s.label, bytes |-> s.bytes, pfaults |-> r.faults,
      faults |-> dn.faults, val |-> dn.val,
      consfirst |-> r.faults = {} /\ \E c \in SeqToSet(first.cons) : ConsViolated(d, chain, c, vis.n, vis.c)]

UpResult(j, s) ==
  LET d == D(j)  P == Jobs[j].anc  X == T(j)
      u == Up(d, X, P, s.val)
  IN [job |-> j, k |-> "up", label |-> s.label, val |-> s.val, faults |-> u.faults, pval |-> u.val,
      bytes |-> EncodeType(d, X, s.val).bytes,
      pbytes |-> IF u.faults = {} THEN EncodeType(d, P, u.val).bytes ELSE <<>>,
      rt |-> LET e == EncodeType(d, X, s.val) IN
             e.faults = {} /\ DecodeFull(d, X, e.bytes).faults = {} /\ DecodeFull(d, X, e.bytes).val = s.val]

PyParseResult(j, s) ==
  LET r == PyParse(D(j), T(j), s.bytes)
      re == IF r.faults = {} THEN EncodeType(D(j), r.cls, r.val) ELSE ERes({}, <<>>)
  IN [job |-> j, k |-> "pyparse", label |-> s.label, bytes |-> s.bytes, faults |-> r.faults,
      cls |-> r.cls, val |-> r.val, refaults |-> re.faults, reenc |-> re.bytes]

JavaParseResult(j, s) ==
  [job |-> j, k |-> "javaparse", label |-> s.label, bytes |-> s.bytes,
   faults |-> DecodeFull(D(j), T(j), s.bytes).faults,
   outcomes |-> JavaOutcomes(D(j), T(j), s.bytes)]

Emit ==
  \/ stim.k = "none"
  \/ stim.k = "schema" /\ PrintT(<<"VEC", ToJson([job |-> job, k |-> "schema", schema |-> SchemaOf(D(job))])>>)
  \/ stim.k = "javaparse" /\ PrintT(<<"VEC", ToJson(JavaParseResult(job, stim))>>)
  \/ stim.k = "pyparse" /\ PrintT(<<"VEC", ToJson(PyParseResult(job, stim))>>)
  \/ stim.k = "spec" /\ PrintT(<<"VEC", ToJson(SpecResult(job, stim))>>)
  \/ stim.k = "down" /\ PrintT(<<"VEC", ToJson(DownResult(job, stim))>>)
  \/ stim.k = "up" /\ PrintT(<<"VEC", ToJson(UpResult(job, stim))>>)
  \/ stim.k = "enum" /\ PrintT(<<"VEC", ToJson(EnumResult(job, stim))>>)
  \/ stim.k = "info" /\ PrintT(<<"VEC", ToJson(InfoResult(job))>>)
  \/ stim.k = "enc" /\ PrintT(<<"VEC", ToJson(EncResult(job, stim))>>)
  \/ stim.k = "dec" /\ PrintT(<<"VEC", ToJson(DecResult(job, stim))>>)

(* --------------------- model-level theorems (M) ------------------------ *)
(* the remainder of a decode is a suffix of the input, and what was        *)
(* consumed plus the remainder is the input (C01, design level)            *)
SuffixInv ==
  stim.k = "dec" =>
    LET r == DecodeType(D(job), T(job), stim.bytes)
        n == Len(stim.bytes) - Len(r.rest)
    IN n >= 0 /\ r.rest = SubSeq(stim.bytes, n + 1, Len(stim.bytes))

(* what the decoder accepts re-encodes without faults, to as many octets,  *)
(* and decodes again to the same value (C04 canonical re-encoding is a     *)
(* fixpoint)                                                               *)
ReencodeInv ==
  stim.k = "dec" =>
    LET x == DecResult(job, stim) IN
    x.full = {} =>
      /\ x.refaults \subseteq {"Unsupported"}
      /\ (x.refaults = {} => /\ Len(x.reenc) = Len(stim.bytes)
                             /\ DecodeFull(D(job), T(job), x.reenc).val = x.val)

(* C16 at the design level: a type annotated Static(n) encodes every       *)
(* well-formed value to exactly n bits (array paddings counted at their     *)
(* declared size); so does every struct-typed part, since struct types are  *)
(* themselves jobs of this machine                                          *)
SizeSoundInv ==
  stim.k = "enc" =>
    LET d == D(job)  id == T(job)
        e == EncodeType(d, id, stim.val)
        t == TotalSizeOf(d, id)
    IN (e.faults = {} /\ t.k = "static") => 8 * Len(e.bytes) = t.n

(* and the static-size function the codec itself relies on agrees with it *)
SizeAgreeInv ==
  stim.k = "enc" =>
    LET d == D(job)  id == T(job)  t == TotalSizeOf(d, id)
    IN (t.k = "static") <=> (StaticBits(d, id) >= 0 /\ StaticBits(d, id) = t.n)

(* C17 at the design level: the twin description's encoding of the same     *)
(* value has the same faults and length and is obtained by reversing the    *)
(* octets of every chunk; chunks are disjoint and inside the encoding       *)
DualityInv ==
  stim.k = "enc" =>
    LET d == D(job)  id == T(job)
        e1 == EncodeType(d, id, stim.val)
        e2 == EncodeType(Twin(d), id, stim.val)
    IN /\ e1.faults = e2.faults
       /\ Len(e1.bytes) = Len(e2.bytes)
       /\ \A c \in 1..Len(e1.chunks) : e1.chunks[c].o >= 0 /\ e1.chunks[c].o + e1.chunks[c].n <= Len(e1.bytes)
       /\ \A c1 \in 1..Len(e1.chunks), c2 \in 1..Len(e1.chunks) :
             c1 < c2 => e1.chunks[c1].o + e1.chunks[c1].n <= e1.chunks[c2].o
       /\ e2.bytes = Dual(e1.bytes, e1.chunks)
       /\ e1.chunks = e2.chunks

(* C06 at the design level (the Walk laws): converting a child value up to  *)
(* an ancestor keeps its encoding, carries the constraint constants, and    *)
(* converting back down yields the child value again; what decodes as the   *)
(* descendant X is identified by specialization as the child of P that      *)
(* leads to X.                                                              *)
UpDownInv ==
  stim.k = "up" =>
    LET d == D(job)  P == Jobs[job].anc  X == T(job)
        u == Up(d, X, P, stim.val)
        e == EncodeType(d, X, stim.val)
        (* the way back is only demanded where the reference itself round-trips the child value (not, e.g., for a    *)
        (* padded array without size or count whose padding is no multiple of the element size)                     *)
        rt == e.faults = {} /\ DecodeFull(d, X, e.bytes).faults = {} /\ DecodeFull(d, X, e.bytes).val = stim.val
    IN u.faults = {} =>
         /\ EncodeType(d, P, u.val).faults = {}
         /\ EncodeType(d, P, u.val).bytes = e.bytes
         /\ rt => /\ Down(d, P, X, u.val).faults = {}
                  /\ Down(d, P, X, u.val).val = stim.val

SpecializeInv ==
  stim.k = "spec" =>
    LET d == D(job)  P == Jobs[job].anc
        r == DecodeFull(d, P, stim.bytes)
    IN r.faults = {} =>
         \A o \in SpecializeOutcomes(d, P, r.val) :
            o.child # "" => (o.child \in Children(d, P) /\ (o.faults = {} => o.val.t = "s"))

(* C15 at the design level: conversion is defined iff the integer is below  *)
(* 2^w and is a tag value, inside a range, or the enum is open; a named tag *)
(* takes precedence over the range that contains it; the classification of *)
(* the default value is never invalid                                      *)
EnumInv ==
  stim.k = "enum" =>
    LET e == DeclOf(D(job), T(job))
        c == ClassOfLimbs(e, stim.bytes)
        fits == FitsLimbs(stim.bytes, e.width)
        x == BitsOfLimbs(stim.bytes, e.width)
        isTag == \E i \in 1..Len(NamedTags(e)) : BitsOfLimbs(NamedTags(e)[i].v, e.width) = x
        inRange == \E i \in 1..Len(RangeTags(e)) :
                      LeqBits(BitsOfLimbs(RangeTags(e)[i].lo, e.width), x)
                      /\ LeqBits(x, BitsOfLimbs(RangeTags(e)[i].hi, e.width))
    IN /\ (c.class # "invalid") <=> (fits /\ (isTag \/ inRange \/ IsOpen(e)))
       /\ (fits /\ isTag) => c.class = "tag"
       /\ ClassOfLimbs(e, DefaultLimbs(e)).class \in {"tag", "range"}

(* encoding never yields a decoder fault class, decoding never an encoder one *)
ClassInv ==
  /\ stim.k = "enc" => EncodeType(D(job), T(job), stim.val).faults
                         \subseteq EncErr \cup {"InvalidEnumValue", "Unsupported", "BadValue"}
  /\ stim.k = "dec" => DecodeType(D(job), T(job), stim.bytes).faults \subseteq DecErr \cup {"Unsupported"}

=============================================================================
