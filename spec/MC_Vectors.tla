----------------------------- MODULE MC_Vectors -----------------------------
(***************************************************************************)
(* Replay-vector machine (direction R of DESIGN.md): for every job         *)
(* (description, type, mode) TLC enumerates the stimuli PdlStim derives    *)
(* from the layout, runs the reference encoder / decoder on each, checks   *)
(* the model-level theorems on it (invariants below - a violation here     *)
(* means the *specification* is incoherent and is reported as a tool       *)
(* error, never as a verdict on the code), and prints one JSON line per    *)
(* stimulus with the expected observable result.                           *)
(*                                                                         *)
(* State: job (fixed per behaviour), stim.  One initial state per job, one *)
(* successor per stimulus, so TLC's workers generate and judge stimuli of  *)
(* different jobs in parallel.                                             *)
(***************************************************************************)
EXTENDS PdlStim, PdlSupport, Json, IOUtils

Descs == ndJsonDeserialize(IOEnv.DESCS)
Jobs == ndJsonDeserialize(IOEnv.JOBS)

VARIABLES job, stim
vars == <<job, stim>>

D(j) == InlineGroups(Descs[Jobs[j].d])
T(j) == Jobs[j].type

None == [k |-> "none", bytes |-> <<>>, val |-> NoneV, label |-> <<>>]
EncStim(v, label) == [k |-> "enc", bytes |-> <<>>, val |-> v, label |-> label]
DecStim(b, label) == [k |-> "dec", bytes |-> b, val |-> NoneV, label |-> label]

WellFormed(d, id, vs) == {v \in vs : EncodeType(d, id, v).faults = {}}

(* byte strings derived from reference encodings of the boundary values *)
DecStimuli(d, id) ==
  LET vs == WellFormed(d, id, ValSet(d, id) \cup PresenceSet(d, id))
      base == DefaultVal(d, id)
      big == IF BigVal(d, id) \in vs THEN BigVal(d, id) ELSE base
      encs == {EncodeType(d, id, v).bytes : v \in vs}
      e0 == EncodeType(d, id, base).bytes
      e1 == EncodeType(d, id, big).bytes
      sem == SemanticMutants(d, id, base) \cup SemanticMutants(d, id, big)
             \cup EnumMutants(d, id, base) \cup EnumMutants(d, id, big)
             \cup PaddingMutants(d, id, base) \cup PaddingMutants(d, id, big)
  IN {DecStim(b, <<"valid">>) : b \in encs}
     \cup {DecStim(b, <<"prefix">>) : b \in Prefixes(e0) \cup Prefixes(e1)}
     \cup {DecStim(b, <<"extend">>) : b \in Extensions(e0) \cup Extensions(e1)}
     \cup {DecStim(m.bytes, m.label) : m \in sem}
     \cup {DecStim(b, <<"bitflip">>) : b \in BitFlips(e0) \cup BitFlips(e1)}
     \cup {DecStim(b, <<"fill">>) : b \in ByteFills(e0) \cup ByteFills(e1)}

StimuliFor(j) ==
  LET d == D(j)  id == T(j)  m == Jobs[j].mode IN
  CASE m = "enc"  -> {EncStim(v, <<"valset">>) : v \in ValSet(d, id) \cup PresenceSet(d, id)}
    [] m = "bad"  -> {EncStim(x.v, x.label) : x \in BadValSet(d, id)}
    [] m = "encx" -> IF VarBits(d, id) <= Jobs[j].n
                     THEN {EncStim(v, <<"all">>) : v \in AllValues(d, id)} ELSE {}
    [] m = "dec"  -> DecStimuli(d, id)
    [] m = "decx" -> {DecStim(b, <<"short">>) : b \in AllShort(Jobs[j].n)}
    [] m = "info" -> {[k |-> "info", bytes |-> <<>>, val |-> NoneV, label |-> <<>>]}
    [] OTHER -> {}

Init == job \in 1..Len(Jobs) /\ stim = None
Next == stim.k = "none" /\ stim' \in StimuliFor(job) /\ UNCHANGED job
Spec == Init /\ [][Next]_vars

(* ------------------------- expected results --------------------------- *)
EncResult(j, s) ==
  LET d == D(j)  id == T(j)
      e == EncodeType(d, id, s.val)
      r == DecodeFull(d, id, e.bytes)
  IN [job |-> j, k |-> "enc", label |-> s.label, val |-> s.val,
      faults |-> e.faults, bytes |-> e.bytes,
      rt |-> e.faults = {} /\ r.faults = {} /\ r.val = s.val]

DecResult(j, s) ==
  LET d == D(j)  id == T(j)
      r == DecodeType(d, id, s.bytes)
      full == IF ~r.halt /\ r.rest # <<>> THEN r.faults \cup {"TrailingBytes"} ELSE r.faults
      re == IF full = {} THEN EncodeType(d, id, r.val) ELSE ERes({}, <<>>)
  IN [job |-> j, k |-> "dec", label |-> s.label, bytes |-> s.bytes,
      faults |-> r.faults, full |-> full, val |-> r.val, rest |-> Len(r.rest),
      refaults |-> re.faults, reenc |-> re.bytes]

InfoResult(j) ==
  LET d == D(j) IN
  [job |-> j, k |-> "info", rust |-> RustSupported(d), py |-> PySupported(d),
   cxx |-> CxxSupported(d), java |-> JavaSupported(d)]

Emit ==
  \/ stim.k = "none"
  \/ stim.k = "info" /\ PrintT(<<"VEC", ToJson(InfoResult(job))>>)
  \/ stim.k = "enc" /\ PrintT(<<"VEC", ToJson(EncResult(job, stim))>>)
  \/ stim.k = "dec" /\ PrintT(<<"VEC", ToJson(DecResult(job, stim))>>)

(* --------------------- model-level theorems (M) ------------------------ *)
(* the remainder of a decode is a suffix of the input, and what was        *)
(* consumed plus the remainder is the input (C01, design level)            *)
SuffixInv ==
  stim.k = "dec" =>
    LET r == DecodeType(D(job), T(job), stim.bytes)
        n == Len(stim.bytes) - Len(r.rest)
    IN n >= 0 /\ r.rest = SubSeq(stim.bytes, n + 1, Len(stim.bytes))

(* what the decoder accepts re-encodes without faults, to as many octets,  *)
(* and decodes again to the same value (C04 canonical re-encoding is a     *)
(* fixpoint)                                                               *)
ReencodeInv ==
  stim.k = "dec" =>
    LET x == DecResult(job, stim) IN
    x.full = {} =>
      /\ x.refaults \subseteq {"Unsupported"}
      /\ (x.refaults = {} => /\ Len(x.reenc) = Len(stim.bytes)
                             /\ DecodeFull(D(job), T(job), x.reenc).val = x.val)

(* encoding never yields a decoder fault class, decoding never an encoder one *)
ClassInv ==
  /\ stim.k = "enc" => EncodeType(D(job), T(job), stim.val).faults
                         \subseteq EncErr \cup {"InvalidEnumValue", "Unsupported", "BadValue"}
  /\ stim.k = "dec" => DecodeType(D(job), T(job), stim.bytes).faults \subseteq DecErr \cup {"Unsupported"}

=============================================================================
