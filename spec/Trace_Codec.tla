----------------------------- MODULE Trace_Codec -----------------------------
(***************************************************************************)
(* Trace validation (direction T of DESIGN.md) for the codec properties.   *)
(*                                                                         *)
(* The harness drives the real generated code with stimuli TLC never saw   *)
(* (seeded random byte strings, random splices of valid encodings, random  *)
(* values over the backing integer types) and records one event per public *)
(* call at its return: operation, arguments, result.  An event is accepted *)
(* iff it is a step the specification allows: the recorded result is what  *)
(* the reference decoder / encoder yields on the recorded arguments.       *)
(* There is no disjunct for "panic", "timeout", "alloc": such an event      *)
(* matches nothing.                                                        *)
(*                                                                         *)
(* Single calls of the codec are independent of each other (pdl keeps no   *)
(* state between calls), so the log is validated as a *set* of one-event   *)
(* traces: one initial state per event, all workers, and every rejected    *)
(* event is reported, not only the first.  Histories with state (C18) are  *)
(* validated sequentially by Trace_Runtime.                                *)
(***************************************************************************)
EXTENDS PdlInherit, PdlSupport, Json, IOUtils

Descs == ndJsonDeserialize(IOEnv.DESCS)
Rec == ndJsonDeserialize(IOEnv.TRACE)

VARIABLE l

D(e) == InlineGroups(Descs[e.d])

(* event: [op, d, type, bytes | val, res |-> [kind, cls, val, rest, bytes]] *)
DecodeOk(e, full) ==
  LET r == IF full THEN DecodeFull(D(e), e.type, e.bytes) ELSE DecodeType(D(e), e.type, e.bytes)
  IN IF "Unsupported" \in r.faults THEN TRUE
     ELSE IF r.faults = {}
     THEN /\ e.res.kind = "ok"
          /\ SameVal(e.res.val, r.val)
          /\ (full \/ e.res.rest = Len(r.rest))
     ELSE e.res.kind = "err" /\ e.res.cls \in r.faults

EncodeOk(e) ==
  LET r == EncodeType(D(e), e.type, e.val)
  IN IF r.faults \cap {"Unsupported", "BadValue", "InvalidEnumValue"} # {} THEN TRUE
     ELSE IF r.faults = {}
     THEN e.res.kind = "ok" /\ e.res.bytes = r.bytes
     ELSE e.res.kind = "err" /\ e.res.cls \in r.faults

EventOk(e) ==
  CASE e.op = "decode" -> DecodeOk(e, FALSE)
    [] e.op = "decode_full" -> DecodeOk(e, TRUE)
    [] e.op = "encode" -> EncodeOk(e)
    [] OTHER -> FALSE

Expected(e) ==
  CASE e.op = "decode" -> LET r == DecodeType(D(e), e.type, e.bytes)
                          IN [faults |-> r.faults, val |-> r.val, rest |-> Len(r.rest), bytes |-> <<>>]
    [] e.op = "decode_full" -> LET r == DecodeFull(D(e), e.type, e.bytes)
                               IN [faults |-> r.faults, val |-> r.val, rest |-> Len(r.rest), bytes |-> <<>>]
    [] e.op = "encode" -> LET r == EncodeType(D(e), e.type, e.val)
                          IN [faults |-> r.faults, val |-> NoneV, rest |-> 0, bytes |-> r.bytes]
    [] OTHER -> [faults |-> {}, val |-> NoneV, rest |-> 0, bytes |-> <<>>]

Init == l \in 1..Len(Rec)
Next == UNCHANGED l
Spec == Init /\ [][Next]_l

(* always TRUE; a rejected event is printed with what the specification allows *)
Validate ==
  \/ EventOk(Rec[l])
  \/ PrintT(<<"REJECT", ToJson([l |-> l, expected |-> Expected(Rec[l])])>>)

=============================================================================
