//! In-process driver for the real pdl-compiler library (path dependency on /repo).
//!
//! Reads ndjson requests, writes one ndjson response per request (flushed), each stage under
//! catch_unwind. It contains no PDL semantics: it calls the library and reports what happened.
//!
//! request:  {"rid":N, "name":"file.pdl", "src":"...", "want":[stage...], "exclude":[ids],
//!            "java_dir":"/path", "java_pkg":"p", "namespace":"ns", "repeat":K}
//! stages:   "parse" (serde JSON of the parsed ast::File), "analyze" (verdict, diagnostics, emit
//!           result, serde JSON of the analyzed file), "schema", "rust", "python", "cxx", "json",
//!           "java"
use codespan_reporting::term::termcolor;
use pdl_compiler::{analyzer, ast, backends, parser};
use serde_json::{json, Value};
use std::io::{BufRead, Write};
use std::panic::{catch_unwind, AssertUnwindSafe};
use std::sync::atomic::{AtomicU64, Ordering};
use std::sync::Arc;

/// source file of the most recent panic (set by the panic hook): part of what identifies a crash site
static LAST_PANIC_FILE: std::sync::Mutex<String> = std::sync::Mutex::new(String::new());

fn panic_msg(e: Box<dyn std::any::Any + Send>) -> String {
    let m = if let Some(s) = e.downcast_ref::<&str>() {
        s.to_string()
    } else if let Some(s) = e.downcast_ref::<String>() {
        s.clone()
    } else {
        "panic".to_string()
    };
    let at = LAST_PANIC_FILE.lock().map(|g| g.clone()).unwrap_or_default();
    if at.is_empty() { m } else { format!("{m} @{at}") }
}

fn guarded<T>(f: impl FnOnce() -> T) -> Result<T, String> {
    catch_unwind(AssertUnwindSafe(f)).map_err(panic_msg)
}

fn size_json(s: analyzer::Size) -> Value {
    match s {
        analyzer::Size::Static(n) => json!({"k": "static", "n": n}),
        analyzer::Size::Dynamic => json!({"k": "dynamic", "n": 0}),
        analyzer::Size::Unknown => json!({"k": "unknown", "n": 0}),
    }
}

fn filter_declarations(file: ast::File, exclude: &[String]) -> ast::File {
    // same rule as pdlc's filter_declarations (main.rs is a binary, not callable)
    ast::File {
        declarations: file
            .declarations
            .into_iter()
            .filter(|decl| decl.id().map(|id| !exclude.contains(&id.to_owned())).unwrap_or(true))
            .collect(),
        ..file
    }
}

fn schema_json(file: &ast::File) -> Result<Value, String> {
    guarded(|| {
        let scope = analyzer::Scope::new(file).map_err(|_| "scope".to_string());
        let scope = match scope {
            Ok(s) => s,
            Err(e) => return json!({"err": e}),
        };
        let schema = analyzer::Schema::new(file);
        let mut decls = vec![];
        for decl in &file.declarations {
            let mut fields = vec![];
            for (i, field) in decl.fields().enumerate() {
                let mut fj = json!({
                    "i": i + 1,
                    "id": field.id().unwrap_or(""),
                    "kind": field.kind(),
                    "field_size": size_json(schema.field_size(field.key)),
                    "padded_size": schema.padded_size(field.key).map(|n| n as i64).unwrap_or(-1),
                });
                if let ast::FieldDesc::Array { .. } = &field.desc {
                    let es = match analyzer::element_size(&scope, &schema, decl, field) {
                        analyzer::ElementSize::Static(n) => json!({"k": "static", "n": n}),
                        analyzer::ElementSize::Dynamic => json!({"k": "dynamic", "n": 0}),
                        analyzer::ElementSize::Unknown => json!({"k": "unknown", "n": 0}),
                    };
                    let asz = match analyzer::array_size(decl, field) {
                        analyzer::ArraySize::StaticCount(n) => json!({"k": "static_count", "n": n}),
                        analyzer::ArraySize::DynamicCount => json!({"k": "dynamic_count", "n": 0}),
                        analyzer::ArraySize::DynamicSize => json!({"k": "dynamic_size", "n": 0}),
                        analyzer::ArraySize::Unknown => json!({"k": "unknown", "n": 0}),
                    };
                    fj["element_size"] = es;
                    fj["array_size"] = asz;
                }
                fields.push(fj);
            }
            decls.push(json!({
                "id": decl.id().unwrap_or(""),
                "kind": decl.kind(),
                "decl_size": size_json(schema.decl_size(decl.key)),
                "parent_size": size_json(schema.parent_size(decl.key)),
                "payload_size": size_json(schema.payload_size(decl.key)),
                "total_size": size_json(schema.total_size(decl.key)),
                "fields": fields,
            }));
        }
        json!({"ok": decls})
    })
}

fn handle(req: &Value) -> Value {
    let rid = req["rid"].clone();
    let name = req["name"].as_str().unwrap_or("stdin").to_string();
    let src = req["src"].as_str().unwrap_or("").to_string();
    let want: Vec<String> = req["want"]
        .as_array()
        .map(|a| a.iter().filter_map(|x| x.as_str().map(String::from)).collect())
        .unwrap_or_default();
    let exclude: Vec<String> = req["exclude"]
        .as_array()
        .map(|a| a.iter().filter_map(|x| x.as_str().map(String::from)).collect())
        .unwrap_or_default();
    let wants = |s: &str| want.iter().any(|w| w == s);
    let mut out = json!({"rid": rid});

    let mut sources = ast::SourceDatabase::new();
    let parsed = guarded(|| parser::parse_inline(&mut sources, &name, src.clone()));
    let file = match parsed {
        Err(p) => {
            out["parse"] = json!({"panic": p});
            return out;
        }
        Ok(Err(diag)) => {
            // render the parser diagnostic the way pdlc does
            let mut buffer = termcolor::Buffer::no_color();
            let config = codespan_reporting::term::Config::default();
            let emit = guarded(|| {
                codespan_reporting::term::emit_to_write_style(&mut buffer, &config, &sources, &diag)
                    .map_err(|e| format!("{e:?}"))
            });
            out["parse"] = json!({"diag": diag.message, "emit": match emit {
                Ok(Ok(())) => json!("ok"), Ok(Err(e)) => json!({"err": e}), Err(p) => json!({"panic": p})}});
            return out;
        }
        Ok(Ok(f)) => f,
    };
    if wants("parse") {
        out["parse"] = match guarded(|| serde_json::to_value(&file)) {
            Ok(Ok(v)) => json!({"ok": v}),
            Ok(Err(e)) => json!({"err": e.to_string()}),
            Err(p) => json!({"panic": p}),
        };
    } else {
        out["parse"] = json!({"ok": null});
    }
    if wants("json") {
        out["json"] = match guarded(|| backends::json::generate(&file)) {
            Ok(Ok(s)) => json!({"ok": s}),
            Ok(Err(e)) => json!({"err": e}),
            Err(p) => json!({"panic": p}),
        };
    }
    let file = filter_declarations(file, &exclude);
    if !(wants("analyze") || wants("schema") || wants("rust") || wants("python") || wants("cxx") || wants("java")) {
        return out;
    }
    let analyzed = match guarded(|| analyzer::analyze(&file)) {
        Err(p) => {
            out["analyze"] = json!({"panic": p});
            return out;
        }
        Ok(Err(diags)) => {
            let source_len = src.len();
            let list: Vec<Value> = diags
                .diagnostics
                .iter()
                .map(|d| {
                    json!({
                        "code": d.code,
                        "message": d.message,
                        "severity": format!("{:?}", d.severity),
                        "labels": d.labels.iter().map(|l| json!({"start": l.range.start, "end": l.range.end,
                            "file": l.file_id})).collect::<Vec<_>>(),
                    })
                })
                .collect();
            let mut buffer = termcolor::Buffer::no_color();
            let emit = guarded(|| diags.emit(&sources, &mut buffer).map_err(|e| format!("{e:?}")));
            out["analyze"] = json!({
                "diags": list,
                "source_len": source_len,
                "emit": match emit { Ok(Ok(())) => json!("ok"), Ok(Err(e)) => json!({"err": e}), Err(p) => json!({"panic": p}) },
                "emit_len": buffer.as_slice().len(),
            });
            return out;
        }
        Ok(Ok(f)) => f,
    };
    out["analyze"] = if wants("analyze") {
        match guarded(|| serde_json::to_value(&analyzed)) {
            Ok(Ok(v)) => json!({"ok": v}),
            Ok(Err(e)) => json!({"err": e.to_string()}),
            Err(p) => json!({"panic": p}),
        }
    } else {
        json!({"ok": null})
    };
    if wants("schema") {
        out["schema"] = match schema_json(&analyzed) {
            Ok(v) => v,
            Err(p) => json!({"panic": p}),
        };
    }
    let repeat = req["repeat"].as_u64().unwrap_or(1).max(1);
    let gen = |f: &dyn Fn() -> String| -> Value {
        let mut outs: Vec<String> = vec![];
        for _ in 0..repeat {
            match guarded(|| f()) {
                Ok(s) => outs.push(s),
                Err(p) => return json!({"panic": p}),
            }
        }
        let same = outs.iter().all(|s| s == &outs[0]);
        json!({"ok": outs[0], "repeat_same": same})
    };
    if wants("rust") {
        out["rust"] = gen(&|| backends::rust::generate(&sources, &analyzed, &[]));
    }
    if wants("python") {
        out["python"] = gen(&|| backends::python::generate(&sources, &analyzed, None, &exclude));
    }
    if wants("cxx") {
        let ns = req["namespace"].as_str();
        out["cxx"] = gen(&|| backends::cxx::generate(&sources, &analyzed, ns, &[], &[], &exclude));
    }
    if wants("java") {
        let dir = req["java_dir"].as_str().unwrap_or("/nonexistent").to_string();
        let pkg = req["java_pkg"].as_str().unwrap_or("p").to_string();
        out["java"] = match guarded(|| {
            backends::java::generate(&sources, &analyzed, &[], std::path::Path::new(&dir), &pkg)
        }) {
            Ok(Ok(())) => json!({"ok": dir}),
            Ok(Err(e)) => json!({"err": e}),
            Err(p) => json!({"panic": p}),
        };
    }
    out
}

fn main() {
    let args: Vec<String> = std::env::args().collect();
    let input: Box<dyn BufRead + Send> = if args.len() > 1 {
        Box::new(std::io::BufReader::new(std::fs::File::open(&args[1]).expect("open input")))
    } else {
        Box::new(std::io::BufReader::new(std::io::stdin()))
    };
    // silence the default panic hook: panics are data, reported per request
    std::panic::set_hook(Box::new(|info| {
        if let (Some(l), Ok(mut g)) = (info.location(), LAST_PANIC_FILE.lock()) {
            let f = l.file();
            let parts: Vec<&str> = f.rsplit('/').take(2).collect();
            *g = parts.into_iter().rev().collect::<Vec<_>>().join("/");
        }
    }));
    // watchdog: a request that runs longer than the limit is reported and the process exits
    let started = Arc::new(AtomicU64::new(0));
    let current = Arc::new(AtomicU64::new(u64::MAX));
    {
        let (started_w, current_w) = (started.clone(), current.clone());
        std::thread::spawn(move || {
            let (started, current) = (started_w, current_w);
            let t0 = std::time::Instant::now();
            loop {
                std::thread::sleep(std::time::Duration::from_millis(200));
                let cur = current.load(Ordering::SeqCst);
                if cur == u64::MAX {
                    continue;
                }
                let now = t0.elapsed().as_millis() as u64;
                let st = started.load(Ordering::SeqCst);
                if st != 0 && now > st + 20_000 {
                    let so = std::io::stdout();
                    let mut so = so.lock();
                    let _ = writeln!(so, "{}", json!({"rid": cur, "timeout": true}));
                    let _ = so.flush();
                    std::process::exit(3);
                }
            }
        });
        let t0 = std::time::Instant::now();
        let handle_thread = std::thread::Builder::new()
            .stack_size(256 << 20)
            .spawn(move || {
                let so = std::io::stdout();
                for line in input.lines() {
                    let line = match line {
                        Ok(l) => l,
                        Err(_) => break,
                    };
                    if line.trim().is_empty() {
                        continue;
                    }
                    let req: Value = match serde_json::from_str(&line) {
                        Ok(v) => v,
                        Err(e) => {
                            let mut so = so.lock();
                            let _ = writeln!(so, "{}", json!({"bad_request": e.to_string()}));
                            continue;
                        }
                    };
                    current.store(req["rid"].as_u64().unwrap_or(0), Ordering::SeqCst);
                    started.store(t0.elapsed().as_millis() as u64 + 1, Ordering::SeqCst);
                    let resp = handle(&req);
                    started.store(0, Ordering::SeqCst);
                    let mut so = so.lock();
                    let _ = writeln!(so, "{}", resp);
                    let _ = so.flush();
                }
            })
            .expect("spawn");
        let _ = handle_thread.join();
    }
}
