"""The description kit: a parametric family of PDL descriptions (data only) exercising every
construct and case split of the code generators.  `build(tier)` returns a list of descriptions
in the JSON form of spec/PdlDesc.tla, each with a unique `name`.  What is *expected* of each
description is decided by the TLA+ specification, never here."""
import itertools
import sys
import os

sys.path.insert(0, os.path.join(os.path.dirname(__file__), "..", "tools"))
from pdl import *  # noqa


def compositions(n, maxparts):
    def rec(rem, parts):
        if rem == 0:
            yield list(parts)
            return
        if len(parts) == maxparts:
            return
        for k in range(1, rem + 1):
            if len(parts) == maxparts - 1 and k != rem:
                continue
            yield from rec(rem - k, parts + [k])
    return list(rec(n, []))


E8 = enum("E8", 8, [tag("A", 1), tag("B", 2), tag("C", 0xff)])
E3 = enum("E3", 3, [tag("A", 0), tag("B", 5)])
E16 = enum("E16", 16, [tag("A", 0xaabb), tag("B", 0xccdd)])
E24 = enum("E24", 24, [tag("A", 1), tag("B", 0x123456)])
E64 = enum("E64", 64, [tag("A", 1), tag("B", 0xffffffffffffffff), tag("C", 0x8000000000000000)])
EOPEN = enum("EO", 8, [tag("A", 0), tag("B", 7), tother("X")])
ERNG = enum("ER", 8, [tag("A", 0), trange("R", 1, 9, [tag("R1", 1), tag("R5", 5)]), trange("S", 20, 29),
                      tag("Z", 0x80)])
ERNGO = enum("ERO", 5, [trange("R", 0, 3), tag("Q", 10), tother("U")])
ECOMP = enum("EC", 2, [tag("A", 0), tag("B", 1), tag("C", 2), tag("D", 3)])
ECOMPR = enum("ECR", 8, [tag("A", 0), tag("B", 1), trange("C", 2, 255)])

SS = struct("SS", [scalar("a", 8)])                           # static size
SS3 = struct("SS3", [scalar("a", 4), scalar("b", 12), typedef("e", "E8")])   # static 3 octets
DS = struct("DS", [size("x", 2), reserved(6), array("x", 8)])  # dynamic size (delimited)
DSC = struct("DSC", [count("x", 8), array("x", 16)])
US = struct("US", [array("x", 8)])                             # unknown size
TLV = struct("TLV", [scalar("t", 8), size("v", 8), array("v", 8)])
SP = struct("SP", [scalar("t", 8), size("_payload_", 8), payload()])          # dynamic through a sized payload
DBASE = struct("DBase", [scalar("k", 8), size("_payload_", 8), payload()])
DCHILD = struct("DChild", [scalar("h", 16)], parent="DBase", cons=[cons("k", 1)])   # derived struct as element
OS = struct("OS", [scalar("f", 1), reserved(7), scalar("v", 16, cond=("f", 1))])   # dynamic through an optional field


def _bf_field(kind, w, i):
    if kind == "s":
        return scalar("f%d" % i, w)
    if kind == "r":
        return reserved(w)
    if kind == "x":
        return fixed((1 << w) - 1 if w < 3 else (1 << (w - 1)) | 1, w)
    raise ValueError(kind)


def bitfield_descs(tier):
    out = []
    comps8 = compositions(8, 4)
    comps16 = compositions(16, 3)
    if tier == "quick":
        comps8 = comps8[::5]
        comps16 = comps16[::9]
    kinds = ["sss", "srs", "xss", "ssx", "rss", "ssr", "sxs"]     # reserved / fixed bits first, in the middle, last
    n = 0
    for comp in comps8 + comps16:
        pat = kinds[n % len(kinds)]
        fields = [_bf_field(pat[i % len(pat)] if len(comp) > 1 else "s", w, i) for i, w in enumerate(comp)]
        out.append(desc("little", [packet("P", fields + [scalar("tail", 8)])],
                        name="bf_%s" % "_".join(map(str, comp))))
        n += 1
    # every width 1..64 at an offset that varies with the width; group of <= 64 bits
    widths = range(1, 65) if tier != "quick" else [1, 2, 7, 8, 9, 15, 16, 17, 24, 31, 32, 33, 40, 48, 56, 57, 63, 64]
    for w in widths:
        off = (w * 3) % 8
        if off + w > 64:
            off = 0
        rem = (-(off + w)) % 8
        if off + w + rem > 64:
            rem = 0
            off = (-w) % 8
            if off + w > 64:
                off = 0
        fields = []
        if off:
            fields.append(scalar("lo", off))
        fields.append(scalar("x", w))
        if rem:
            fields.append(scalar("hi", rem))
        out.append(desc("little", [packet("P", fields + [scalar("tail", 16)])], name="w%d_o%d" % (w, off)))
    # wide groups mixing kinds
    out.append(desc("little", [E3, packet("P", [scalar("a", 2), typedef("e", "E3"), scalar("b", 24), fixed(5, 3),
                                                reserved(7), scalar("c", 25)])], name="bf_mix64"))
    out.append(desc("little", [packet("P", [scalar("a", 1), scalar("b", 62), scalar("c", 1)])], name="bf_1_62_1"))
    out.append(desc("little", [packet("P", [scalar("a", 7), scalar("c", 57)])], name="bf_7_57"))
    out.append(desc("little", [packet("P", [scalar("a", 3), scalar("b", 8), scalar("c", 5), scalar("d", 24),
                                            scalar("e", 12), scalar("f", 4)])], name="bf_complex"))
    out.append(desc("little", [packet("P", [scalar("a", 2), scalar("b", 24), scalar("c", 6)])], name="bf_mask"))
    out.append(desc("little", [packet("P", [])], name="empty"))
    return out


def chunk_descs(tier):
    """every bit-field kind alone in a whole-octet chunk, as the first, a middle and the last chunk of a packet"""
    out = []
    kinds = [("scalar", lambda w: [scalar("k", w)], []), ("reserved", lambda w: [reserved(w)], []),
             ("fixed", lambda w: [fixed(0xa5 if w == 8 else 0xa55a, w)], []),
             ("fixedenum", lambda w: [fixedenum("B", "E8" if w == 8 else "E16")], [E8, E16]),
             ("enum", lambda w: [typedef("k", "E8" if w == 8 else "E16")], [E8, E16]),
             ("size", lambda w: [size("z", w)], []), ("count", lambda w: [count("z", w)], [])]
    for (kn, mk, decls) in kinds:
        for pos in ("first", "mid", "last"):
            w = 16 if pos == "mid" else 8
            before = [] if pos == "first" else [scalar("a", 8)]
            after = [] if pos == "last" else [scalar("b", 8)]
            tail = [array("z", 8)] if kn in ("size", "count") else []
            out.append(desc("little", decls + [packet("P", before + mk(w) + after + tail)], name="chunk_%s_%s" % (kn, pos)))
    # a reserved-only chunk written as two reserved fields, last and in the middle
    out.append(desc("little", [packet("P", [reserved(8)])], name="chunk_reserved_only"))
    out.append(desc("little", [packet("P", [count("x", 8), array("x", 8), reserved(8)])], name="chunk_reserved_only_after_array"))
    out.append(desc("little", [packet("P", [scalar("a", 8), reserved(1), reserved(7)])], name="chunk_reserved2_last"))
    out.append(desc("little", [packet("P", [scalar("a", 8), reserved(3), reserved(13), scalar("b", 8)])], name="chunk_reserved2_mid"))
    return out


def enum_descs(tier):
    out = []
    for e in (E8, E3, E16, E24, E64, EOPEN, ERNG, ERNGO, ECOMP, ECOMPR):
        w = e["width"]
        rem = (-w) % 8
        fields = [typedef("e", e["id"])] + ([scalar("r", rem)] if rem else [])
        out.append(desc("little", [e, packet("P", fields + [scalar("t", 8)])], name="enum_%s" % e["id"].lower()))
    out.append(desc("little", [E8, E16, packet("P", [fixedenum("B", "E8"), typedef("x", "E16"), fixedenum("A", "E16")])],
                    name="enum_fixed"))
    more = [
        enum("E1", 1, [tag("A", 0), tag("B", 1)]),
        enum("E1c", 1, [tag("A", 1)]),
        enum("E7", 7, [tag("A", 1), tag("B", 2)]),
        enum("E9", 9, [tag("A", 0), tag("B", 0x1ff), tother("O")]),
        enum("E12r", 12, [trange("R", 0x10, 0xfff), tag("A", 1)]),
        enum("E16o", 16, [tag("A", 0xffff), tother("O")]),
        enum("E32", 32, [tag("A", 0xffffffff), tag("B", 0x80000000), trange("R", 2, 0x7fffffff)]),
        enum("E33", 33, [tag("A", 0x1ffffffff), tag("B", 0)]),
        enum("E63", 63, [tag("A", 0x7fffffffffffffff), trange("R", 1, 16, [tag("R2", 2)])]),
        enum("E64r", 64, [trange("R", 0x100000000, 0xfffffffffffffffe), tag("A", 0xffffffffffffffff), tag("Z", 0)]),
        enum("E64o", 64, [tag("A", 5), tother("O")]),
        enum("E8full", 8, [trange("R", 0, 255)]),
        enum("E8fullo", 8, [trange("R", 0, 255, [tag("M", 77)]), tother("O")]),
        enum("E4adj", 4, [trange("R", 0, 7), trange("S", 8, 15)]),
        enum("E2o", 2, [tag("A", 0), tag("B", 1), tag("C", 2), tag("D", 3), tother("O")]),
        enum("E8lead", 8, [trange("R", 3, 9), tag("A", 1)]),
        enum("E8leadt", 8, [trange("R", 3, 9, [tag("R4", 4)]), tag("A", 1)]),
        # open enums whose declared values run contiguously from k > 0 up to 2^w - 1
        enum("E3hi", 3, [tag("A", 1), trange("B", 2, 7, [tag("X", 3)]), tother("U")]),
        enum("E4hi", 4, [tag("Y", 14), tag("Z", 15), tother("U")]),
        enum("E12hi", 12, [trange("R", 0x800, 0xfff), tother("U")]),
        enum("E8hi", 8, [tag("Y", 254), tag("Z", 255), tother("U")]),
        # open enums of octet-aligned widths that are no native integer width (the catch-all arm must still reject >= 2^w)
        enum("E24o", 24, [tag("A", 1), tag("B", 0x123456), tother("O")]),
        enum("E40o", 40, [tag("A", 0), trange("R", 0x100, 0xffff, [tag("R1", 0x100)]), tother("O")]),
        enum("E56c", 56, [tag("A", 1), tag("Z", 0xffffffffffffff)]),
        enum("E48o", 48, [trange("R", 0, 0xfffffffffffe), tother("O")]),
        # ranges by how many of their values are named: all but one, all, first and last only
        enum("E8r1", 8, [trange("R", 10, 12, [tag("A", 10), tag("C", 12)]), tag("Z", 0)]),
        enum("E8r1o", 8, [trange("R", 1, 3, [tag("LOW", 1), tag("HIGH", 2)]), tother("U")]),
        enum("E4rall", 4, [trange("R", 4, 6, [tag("A", 4), tag("B", 5), tag("C", 6)]), tag("Z", 15)]),
        enum("E8r2", 8, [trange("R", 0, 1, [tag("A", 0)]), trange("S", 254, 255, [tag("B", 255)])]),
        # closed, contiguous from 0 but stopping short of the maximum; contiguous with a hole
        enum("E3lo", 3, [tag("A", 0), tag("B", 1), tag("C", 2)]),
        enum("E4hole", 4, [trange("R", 0, 6), trange("S", 8, 15)]),
        enum("E4holeo", 4, [trange("R", 0, 6), trange("S", 8, 15), tother("U")]),
    ]
    for e in more:
        w = e["width"]
        rem = (-w) % 8
        fields = [typedef("e", e["id"])] + ([scalar("r", rem)] if rem else [])
        out.append(desc("little", [e, packet("P", fields)], name="enum_%s" % e["id"].lower()))
    return out


def array_descs(tier):
    out = []
    elems = [("u8", 8, []), ("u16", 16, []), ("u24", 24, []), ("u64", 64, []), ("e8", "E8", [E8]),
             ("e16", "E16", [E16]), ("e24", "E24", [E24]), ("ss", "SS", [SS]), ("ss3", "SS3", [E8, SS3]),
             ("ds", "DS", [DS]), ("dsc", "DSC", [DSC]), ("us", "US", [US]),
             ("sp", "SP", [SP]), ("dch", "DChild", [DBASE, DCHILD]), ("os", "OS", [OS])]
    shapes = ["c0", "c1", "c3", "cnt", "siz", "unk", "psiz", "pcnt"]
    for (en, el, decls) in elems:
        for sh in shapes:
            if tier == "quick" and en in ("u24", "e24", "dsc", "sp", "dch", "os") and sh in ("c0", "c1"):
                continue
            if sh in ("psiz", "pcnt") and (en == "us" or (tier == "quick" and en in ("u24", "u64", "e16", "e24", "ss3", "dch"))):
                continue
            if sh == "c0":
                fs = [scalar("h", 8), array("x", el, count=0), scalar("t", 8)]
            elif sh == "c1":
                fs = [array("x", el, count=1), scalar("t", 8)]
            elif sh == "c3":
                fs = [scalar("h", 8), array("x", el, count=3)]
            elif sh == "cnt":
                fs = [count("x", 4), reserved(4), array("x", el), scalar("t", 8)]
            elif sh == "siz":
                fs = [size("x", 5), scalar("h", 3), array("x", el), scalar("t", 16)]
            elif sh == "psiz":      # size field, array, padding
                fs = [size("x", 8), array("x", el), padding(16), scalar("t", 8)]
            elif sh == "pcnt":      # count field, array, padding
                fs = [count("x", 8), array("x", el), padding(16), scalar("t", 8)]
            else:
                fs = [scalar("h", 8), array("x", el)]
            if en == "us" and sh in ("c3", "c1", "cnt"):
                # elements of unknown size can only be delimited by an element size or be last
                continue
            out.append(desc("little", decls + [packet("P", fs)], name="arr_%s_%s" % (en, sh)))
    # wide count / size fields (adversarial values reach 64 bits)
    for w in (8, 16, 24, 32, 64):
        out.append(desc("little", [packet("P", [count("x", w), array("x", 16)])], name="arr_cnt%d" % w))
        out.append(desc("little", [packet("P", [size("x", w), array("x", 24)])], name="arr_siz%d" % w))
        out.append(desc("little", [DS, packet("P", [count("x", w), array("x", "DS")])], name="arr_dscnt%d" % w))
    # wide size fields in front of statically sized *struct* elements (capacity computed from the wire)
    for w in (24, 64):
        out.append(desc("little", [SS3, E8, packet("P", [size("x", w), array("x", "SS3")])], name="arr_ss3_siz%d" % w))
    # padding
    out.append(desc("little", [packet("P", [size("x", 4), reserved(4), array("x", 16), padding(16), scalar("t", 8)])],
                    name="pad_siz16"))
    out.append(desc("little", [packet("P", [count("x", 8), array("x", 8), padding(5), scalar("t", 8)])],
                    name="pad_cnt8"))
    out.append(desc("little", [DS, packet("P", [count("x", 8), array("x", "DS"), padding(16)])], name="pad_ds_cnt"))
    out.append(desc("little", [packet("P", [array("x", 8, count=3), padding(5), scalar("t", 8)])], name="pad_static"))
    out.append(desc("little", [packet("P", [scalar("h", 8), array("x", 16, count=3), padding(4), scalar("t", 8)])],
                    name="pad_static_small"))     # accepted by the analyzer although the array can never fit its padding
    out.append(desc("little", [E8, packet("P", [size("x", 8), array("x", "E8"), padding(4)])], name="pad_enum_siz"))
    out.append(desc("little", [SS, packet("P", [count("x", 8), array("x", "SS"), padding(3), array("y", 16)])],
                    name="pad_then_array"))
    out.append(desc("little", [packet("P", [scalar("h", 8), array("x", 8), padding(4)])], name="pad_unk"))
    # element size fields
    out.append(desc("little", [US, packet("P", [elementsize("x", 4), reserved(4), array("x", "US", count=3)])],
                    name="es_static3"))
    out.append(desc("little", [US, packet("P", [elementsize("x", 8), array("x", "US", count=1)])], name="es_static1"))
    out.append(desc("little", [US, packet("P", [size("x", 4), reserved(4), elementsize("x", 4), reserved(4),
                                                array("x", "US"), array("tail", 8)])], name="es_siz"))
    out.append(desc("little", [US, packet("P", [count("x", 4), reserved(4), elementsize("x", 4), reserved(4),
                                                array("x", "US"), array("tail", 8)])], name="es_cnt"))
    out.append(desc("little", [US, packet("P", [elementsize("x", 4), reserved(4), array("x", "US")])], name="es_unk"))
    out.append(desc("little", [DS, packet("P", [elementsize("x", 8), count("x", 8), array("x", "DS")])],
                    name="es_ds_cnt"))
    out.append(desc("little", [US, packet("P", [elementsize("x", 64), array("x", "US")])], name="es_w64"))
    out.append(desc("little", [US, packet("P", [elementsize("x", 16), count("x", 16), array("x", "US")])],
                    name="es16_cnt16"))
    # size modifiers on arrays (reference.md; not implemented by the rust backend)
    out.append(desc("little", [packet("P", [size("x", 8), array("x", 8, mod=2)])], name="arr_mod_u8"))
    out.append(desc("little", [DS, packet("P", [size("x", 4), reserved(4), array("x", "DS", mod=2)])], name="arr_mod_ds"))
    # TLV: arrays of recursive structures
    out.append(desc("little", [TLV, packet("P", [count("x", 8), array("x", "TLV")])], name="tlv_cnt"))
    out.append(desc("little", [TLV, packet("P", [array("x", "TLV")])], name="tlv_unk"))
    # several arrays in one packet
    out.append(desc("little", [packet("P", [size("x", 8), count("y", 8), array("x", 16), array("y", 8), array("z", 32)])],
                    name="arr_three"))
    return out


def payload_descs(tier):
    out = []
    P = lambda fs, name: out.append(desc("little", [packet("P", fs)], name=name))
    P([size("_payload_", 8), payload()], "pl_siz8")
    P([size("_payload_", 3), reserved(5), payload()], "pl_siz3")
    P([size("_payload_", 3), reserved(5), payload(mod=2)], "pl_siz3_mod2")
    P([size("_payload_", 16), payload(mod=5), scalar("t", 8)], "pl_siz16_mod5_tail")
    P([size("_payload_", 64), payload()], "pl_siz64")
    P([size("_payload_", 32), payload(mod=1)], "pl_siz32_mod1")
    P([payload(), scalar("a", 16)], "pl_unk_tail")
    P([scalar("a", 16), payload()], "pl_unk_terminal")
    P([payload()], "pl_only")
    P([size("_body_", 3), reserved(5), body()], "body_siz3")
    P([body(), scalar("a", 16)], "body_unk_tail")
    P([scalar("a", 16), body()], "body_unk_terminal")
    P([scalar("a", 8), payload(), array("x", 8, count=2), padding(4), scalar("z", 8)], "pl_unk_padded_tail")
    P([scalar("a", 4), size("_payload_", 12), payload(), scalar("b", 24)], "pl_siz12_tail24")
    out.append(desc("little", [SS3, E8, packet("P", [payload(), typedef("s", "SS3")])], name="pl_unk_struct_tail"))
    # what may follow an unsized payload / body: a bit-field group made of sub-octet fields, reserved and fixed bits,
    # an enum, several groups, a static array
    P([scalar("h", 8), payload(), scalar("k", 4), scalar("s", 12)], "pl_unk_tail_bits")
    P([body(), scalar("f", 3), reserved(5), scalar("crc", 16)], "body_unk_tail_bits")
    P([payload(), fixed(5, 3), scalar("a", 13), scalar("b", 8)], "pl_unk_tail_fixed")
    out.append(desc("little", [E3, packet("P", [scalar("h", 8), payload(), typedef("e", "E3"), scalar("r", 5), array("x", 16, count=2)])],
                    name="pl_unk_tail_enum_array"))
    return out


def optional_descs(tier):
    out = []
    out.append(desc("little", [packet("P", [scalar("c0", 1), scalar("c1", 1), reserved(6), scalar("a", 24, cond=("c0", 0)),
                                            scalar("b", 32, cond=("c1", 1))])], name="opt_scalar"))
    out.append(desc("little", [E16, packet("P", [scalar("c0", 1), scalar("c1", 1), reserved(6),
                                                 typedef("a", "E16", cond=("c0", 0)), typedef("b", "E16", cond=("c1", 1))])],
                    name="opt_enum"))
    out.append(desc("little", [SS, DS, packet("P", [scalar("c0", 1), scalar("c1", 1), reserved(6),
                                                    typedef("a", "SS", cond=("c0", 0)), typedef("b", "DS", cond=("c1", 1))])],
                    name="opt_struct"))
    out.append(desc("little", [packet("P", [scalar("c", 1), reserved(7), scalar("a", 8, cond=("c", 1)),
                                            scalar("b", 16, cond=("c", 1)), scalar("z", 8, cond=("c", 0))])],
                    name="opt_shared_flag"))
    out.append(desc("little", [packet("P", [scalar("c", 1), scalar("k", 7), scalar("a", 64, cond=("c", 1)), scalar("t", 8)])],
                    name="opt_64"))
    out.append(desc("little", [packet("P", [scalar("c", 1), reserved(7), scalar("a", 8, cond=("c", 1)), scalar("b", 16, cond=("c", 1))])],
                    name="opt_same_one"))
    out.append(desc("little", [E8, packet("P", [scalar("k", 3), scalar("c", 1), reserved(4), scalar("a", 8, cond=("c", 0)),
                                                typedef("e", "E8", cond=("c", 0)), scalar("d", 24, cond=("c", 0))])],
                    name="opt_same_zero"))
    out.append(desc("little", [E8, packet("P", [scalar("x", 3), scalar("c", 1), scalar("y", 4), typedef("e", "E8", cond=("c", 1)),
                                                size("_payload_", 8), payload()])], name="opt_then_payload"))
    out.append(desc("little", [struct("S", [scalar("f", 1), reserved(7), scalar("v", 16, cond=("f", 1))]),
                               packet("P", [count("x", 8), array("x", "S")])], name="opt_in_array"))
    out.append(desc("little", [packet("P", [scalar("c0", 1), scalar("c1", 1), scalar("c2", 1), reserved(5),
                                            scalar("a", 8, cond=("c0", 1)), scalar("b", 8, cond=("c1", 1)),
                                            scalar("c", 8, cond=("c2", 1)), scalar("t", 8)])], name="opt_three"))
    return out


def optional_matrix_descs(tier):
    """optional field type x width x position: every octet width of a scalar, enums of native and non-native widths,
    as the last field of the packet and followed by further fields"""
    out = []
    widths = (8, 16, 24, 32, 40, 48, 56, 64) if tier != "quick" else (8, 24, 40, 56, 64)
    for w in widths:
        out.append(desc("little", [packet("P", [scalar("c", 1), reserved(7), scalar("x", w, cond=("c", 1))])], name="optm_u%d_last" % w))
        out.append(desc("little", [packet("P", [scalar("c", 1), reserved(7), scalar("x", w, cond=("c", 0)), scalar("t", 16)])],
                        name="optm_u%d_mid" % w))
    for e in (E8, E16, E24, E64, EOPEN, ERNG):      # closed, open, with ranges
        out.append(desc("little", [e, packet("P", [scalar("c", 1), reserved(7), typedef("x", e["id"], cond=("c", 1))])],
                        name="optm_%s_last" % e["id"].lower()))
        out.append(desc("little", [e, packet("P", [scalar("c", 1), reserved(7), typedef("x", e["id"], cond=("c", 1)), scalar("t", 8)])],
                        name="optm_%s_mid" % e["id"].lower()))
    return out


def extent_position_descs(tier):
    """size / count fields as wide as a native integer in the *middle* of a bit-field group (fields before and after
    them in the same group), for arrays and payloads"""
    out = []
    for w in (8, 16, 32):
        out.append(desc("little", [packet("P", [scalar("a", 4), count("x", w), scalar("b", 4), array("x", 16)])], name="ext_cnt%d_mid" % w))
        out.append(desc("little", [packet("P", [scalar("a", 4), size("x", w), scalar("b", 4), array("x", 8), scalar("t", 8)])],
                        name="ext_siz%d_mid" % w))
        out.append(desc("little", [packet("P", [scalar("a", 3), size("_payload_", w), scalar("b", 5), payload(), scalar("t", 8)])],
                        name="ext_plsiz%d_mid" % w))
    out.append(desc("little", [US, packet("P", [scalar("a", 4), elementsize("x", 8), scalar("b", 4), array("x", "US", count=2)])],
                    name="es_ext8_mid"))
    return out


def wide_chunk_descs(tier):
    """bit-field groups of 3..8 octets made of several fields (scalar / reserved / fixed in turn)"""
    out = []
    comps = [(4, 20), (12, 12), (1, 23), (8, 32), (4, 36), (16, 32), (3, 45), (8, 48), (4, 52), (1, 63), (32, 32), (4, 60),
             (9, 7, 8), (17, 15, 8, 8), (2, 30, 24), (24, 24, 16)]
    if tier == "quick":
        comps = comps[::2] + [(17, 15, 8, 8)]
    pats = ["ss", "rs", "sr", "xs", "sx"]
    for n, comp in enumerate(comps):
        pat = pats[n % len(pats)]
        fields = [_bf_field(pat[i % len(pat)] if (pat[i % len(pat)] != "x" or w >= 3) else "s", w, i) for i, w in enumerate(comp)]
        out.append(desc("little", [packet("P", [scalar("h", 8)] + fields + [scalar("t", 8)])],
                        name="wc_%s_%s" % ("_".join(map(str, comp)), pat)))
    return out


def struct_descs(tier):
    out = []
    # a derived struct as the type of a plain field, of an optional field and of a static array
    out.append(desc("little", [DBASE, DCHILD, packet("P", [scalar("c", 1), reserved(7), typedef("d", "DChild", cond=("c", 1)), scalar("t", 8)])],
                    name="opt_derived_struct"))
    out.append(desc("little", [DBASE, DCHILD, packet("Parent", [size("_payload_", 8), payload(), scalar("z", 8)]),
                               packet("Child", [scalar("c", 1), reserved(7), typedef("d", "DChild", cond=("c", 1))], parent="Parent")],
                    name="opt_derived_struct_in_sized_payload"))
    out.append(desc("little", [SS, DS, packet("P", [typedef("a", "SS"), typedef("b", "DS")])], name="st_two"))
    out.append(desc("little", [SS, struct("M", [typedef("i", "SS"), scalar("k", 8)]), packet("P", [typedef("m", "M"), typedef("n", "M")])],
                    name="st_nested"))
    out.append(desc("little", [E8, SS3, packet("P", [scalar("h", 8), typedef("s", "SS3"), array("x", "SS3", count=2)])],
                    name="st_ss3"))
    out.append(desc("little", [US, packet("P", [scalar("h", 8), typedef("u", "US")])], name="st_unknown_last"))
    out.append(desc("little", [struct("Q", [scalar("a", 16), payload()]), packet("P", [scalar("h", 8), typedef("q", "Q")])],
                    name="st_with_payload"))
    out.append(desc("little", [struct("Q", [size("_payload_", 8), payload()]),
                               packet("P", [typedef("q", "Q"), scalar("t", 8)])], name="st_with_sized_payload"))
    out.append(desc("little", [DSC, struct("W", [typedef("d", "DSC"), scalar("z", 8)]), packet("P", [count("w", 8), array("w", "W")])],
                    name="st_array_of_nested_dynamic"))
    return out


def custom_descs(tier):
    out = []
    for w in (8, 16, 24, 32, 40, 64):
        out.append(desc("little", [custom("CF", w), packet("P", [scalar("h", 8), typedef("c", "CF"), scalar("t", 8)])],
                        name="custom_%d" % w))
    out.append(desc("little", [custom("CF", 24), packet("P", [array("x", "CF", count=2), count("y", 8), array("y", "CF")])],
                    name="custom_arrays"))
    return out


def inherit_descs(tier):
    out = []
    out.append(desc("little", [E16,
                               packet("Foo", [scalar("a", 8), typedef("b", "E16"), size("_payload_", 8), payload()]),
                               packet("Bar", [scalar("x", 8)], parent="Foo", cons=[cons("a", 100)]),
                               packet("Baz", [scalar("y", 16)], parent="Foo", cons=[cons("b", "B")])], name="inh_children"))
    out.append(desc("little", [E16,
                               packet("Parent", [typedef("foo", "E16"), typedef("bar", "E16"), typedef("baz", "E16"),
                                                 size("_payload_", 8), payload()]),
                               packet("Child", [typedef("quux", "E16"), payload()], parent="Parent", cons=[cons("foo", "A")]),
                               packet("GrandChild", [body()], parent="Child", cons=[cons("bar", "A"), cons("quux", "A")]),
                               packet("GrandGrandChild", [payload()], parent="GrandChild", cons=[cons("baz", "A")])],
                    name="inh_grand"))
    out.append(desc("little", [packet("Parent", [scalar("v", 8), payload()]),
                               packet("Alias", [payload()], parent="Parent"),
                               packet("C1", [scalar("x", 8)], parent="Alias", cons=[cons("v", 1)]),
                               packet("C2", [scalar("y", 16)], parent="Alias", cons=[cons("v", 2)])], name="inh_alias"))
    # an alias (only a payload of its own) that carries a constraint, between a root and constrained leaves
    out.append(desc("little", [E8, packet("Message", [typedef("kind", "E8"), scalar("op", 16), payload()]),
                               packet("Request", [payload()], parent="Message", cons=[cons("kind", "A")]),
                               packet("ReadRequest", [scalar("handle", 16)], parent="Request", cons=[cons("op", 0x0102)]),
                               packet("WriteRequest", [scalar("handle", 16), array("data", 8)], parent="Request", cons=[cons("op", 0x0103)]),
                               packet("Event", [scalar("code", 8)], parent="Message", cons=[cons("kind", "B")])],
                    name="inh_alias_cons"))
    out.append(desc("little", [packet("Parent", [scalar("v", 8)]),
                               packet("Child", [], parent="Parent", cons=[cons("v", 7)])], name="inh_nopayload"))
    out.append(desc("little", [packet("Parent", [scalar("v", 8), payload()]),
                               packet("S1", [scalar("a", 8)], parent="Parent"),
                               packet("S2", [scalar("a", 16)], parent="Parent")], name="inh_by_size"))
    out.append(desc("little", [packet("Parent", [scalar("v", 8), payload()]),
                               packet("S1", [scalar("a", 8)], parent="Parent", cons=[cons("v", 1)]),
                               packet("S2", [scalar("a", 16)], parent="Parent", cons=[cons("v", 1)]),
                               packet("S3", [scalar("a", 8)], parent="Parent", cons=[cons("v", 2)])],
                    name="inh_by_cons_and_size"))
    out.append(desc("little", [packet("Parent", [scalar("v", 4), scalar("w", 4), payload(), scalar("crc", 16)]),
                               packet("Child", [scalar("x", 24), count("z", 8), array("z", 16)], parent="Parent",
                                      cons=[cons("v", 3)])], name="inh_tail_after_payload"))
    out.append(desc("little", [E8,
                               packet("L0", [typedef("k", "E8"), scalar("m", 8), size("_payload_", 16), payload(mod=1)]),
                               packet("L1", [scalar("n", 8), payload()], parent="L0", cons=[cons("k", "B")]),
                               packet("L2", [scalar("o", 16), body()], parent="L1", cons=[cons("n", 9)]),
                               packet("L3", [scalar("p", 8)], parent="L2", cons=[cons("m", 200), cons("o", 0x1234)]),
                               packet("L1b", [array("q", 8)], parent="L0", cons=[cons("k", "A")])], name="inh_depth4"))
    out.append(desc("little", [struct("Base", [scalar("t", 8), size("_payload_", 8), payload()]),
                               struct("D1", [scalar("x", 16)], parent="Base", cons=[cons("t", 1)]),
                               struct("D2", [array("y", 8)], parent="Base", cons=[cons("t", 2)]),
                               packet("P", [typedef("b", "Base"), typedef("d", "D1")])], name="inh_struct"))
    out.append(desc("little", [E8, packet("Parent", [scalar("c", 1), reserved(7), typedef("e", "E8", cond=("c", 1)), payload()]),
                               packet("Child", [scalar("x", 8)], parent="Parent")], name="inh_optional_parent"))
    # children told apart by size next to a sibling that has its own payload, and a grandchild below it
    out.append(desc("little", [packet("Parent", [scalar("a", 8), payload()]),
                               packet("Child1", [scalar("x", 8)], parent="Parent", cons=[cons("a", 1)]),
                               packet("Child2", [scalar("x", 16)], parent="Parent", cons=[cons("a", 1)]),
                               packet("Child3", [scalar("x", 8), payload()], parent="Parent", cons=[cons("a", 2)]),
                               packet("GrandChild", [scalar("y", 16)], parent="Child3", cons=[cons("x", 7)])],
                    name="inh_size_and_payload_sibling"))
    # parents whose data fields are not plain scalars (arrays, structs): inherited by the child, with and without a payload
    out.append(desc("little", [SS, packet("Parent", [scalar("v", 8), count("a", 8), array("a", 16), typedef("st", "SS"), payload()]),
                               packet("Child", [scalar("x", 8)], parent="Parent", cons=[cons("v", 1)])], name="inh_parent_array"))
    out.append(desc("little", [packet("Parent", [scalar("v", 8), count("a", 8), array("a", 16)]),
                               packet("Child", [], parent="Parent", cons=[cons("v", 7)])], name="inh_nopayload_array"))
    # constraint tuples: children with two constraints that agree on the first and differ in the second, on the
    # second only, and a child with one constraint that a two-constraint sibling shares
    out.append(desc("little", [E8, packet("Cmd", [scalar("op", 8), typedef("kind", "E8"), payload()]),
                               packet("ReadA", [scalar("x", 8)], parent="Cmd", cons=[cons("op", 1), cons("kind", "A")]),
                               packet("ReadB", [scalar("y", 8)], parent="Cmd", cons=[cons("op", 1), cons("kind", "B")]),
                               packet("WriteA", [scalar("z", 8)], parent="Cmd", cons=[cons("op", 2), cons("kind", "A")]),
                               packet("AnyC", [array("w", 8)], parent="Cmd", cons=[cons("kind", "C")])],
                    name="inh_cons_tuples"))
    # one child subtree with two cases that look alike from the root: a grandchild constrained only on its parent's own
    # field; two grandchildren under an unconstrained alias with the same constraint and different constant sizes
    out.append(desc("little", [packet("Parent", [scalar("a", 8), payload()]),
                               packet("Child1", [scalar("x", 8), payload()], parent="Parent", cons=[cons("a", 1)]),
                               packet("Child2", [scalar("x", 16)], parent="Parent", cons=[cons("a", 2)]),
                               packet("GrandChild1", [scalar("y", 12), reserved(4)], parent="Child1", cons=[cons("x", 42)])],
                    name="inh_grandchild_local_cons"))
    out.append(desc("little", [packet("Parent", [scalar("a", 8), payload()]),
                               packet("Alias", [payload()], parent="Parent"),
                               packet("Small", [scalar("x", 8)], parent="Alias", cons=[cons("a", 2)]),
                               packet("Large", [scalar("x", 16)], parent="Alias", cons=[cons("a", 2)]),
                               packet("Other", [scalar("x", 8)], parent="Parent", cons=[cons("a", 3)])],
                    name="inh_alias_same_cons"))
    # statically sized array and struct fields of the parent *after* its payload
    out.append(desc("little", [SS, packet("Parent", [scalar("v", 8), payload(), array("tl", 16, count=2), typedef("st", "SS")]),
                               packet("Child", [scalar("x", 8), count("z", 8), array("z", 8)], parent="Parent", cons=[cons("v", 1)])],
                    name="inh_tail_array_after_payload"))
    # constraint lists written in another order than the fields, same-typed fields bound to different values,
    # at one level and spread over two levels (child binds the later field, grandchild the earlier one)
    out.append(desc("little", [packet("Parent", [scalar("a", 8), scalar("b", 8), scalar("c", 16), scalar("d", 16), payload()]),
                               packet("Child", [scalar("x", 8), payload()], parent="Parent", cons=[cons("b", 0x34), cons("a", 5)]),
                               packet("GrandChild", [scalar("y", 8)], parent="Child", cons=[cons("d", 2), cons("c", 1)]),
                               packet("Child2", [payload()], parent="Parent", cons=[cons("b", 1)]),
                               packet("GrandChild2", [scalar("z", 8)], parent="Child2", cons=[cons("a", 2)])],
                    name="inh_cons_order"))
    # optional fields of non-native width under a sized payload / inside a sized array of structs
    out.append(desc("little", [packet("Parent", [size("_payload_", 8), payload(), scalar("trailer", 8)]),
                               packet("Child", [scalar("c", 1), reserved(7), scalar("x", 24, cond=("c", 1))], parent="Parent")],
                    name="inh_opt24_in_sized_payload"))
    out.append(desc("little", [E24, struct("S", [scalar("f", 1), scalar("g", 1), reserved(6), scalar("v", 40, cond=("f", 1)),
                                                 typedef("e", "E24", cond=("g", 0))]),
                               packet("P", [size("x", 8), array("x", "S"), scalar("t", 8)])], name="opt40_in_sized_array"))
    return out


def group_descs(tier):
    out = []
    out.append(desc("little", [groupdecl("G", [scalar("a", 16)]), packet("P", [group("G", [cons("a", 42)]), scalar("t", 8)])],
                    name="grp_scalar"))
    out.append(desc("little", [E16, groupdecl("G", [typedef("a", "E16")]), packet("P", [group("G", [cons("a", "A")])])],
                    name="grp_enum"))
    out.append(desc("little", [groupdecl("Paged", [scalar("offset", 8), scalar("limit", 8)]),
                               packet("P", [scalar("pot", 8), group("Paged")])], name="grp_plain"))
    out.append(desc("little", [groupdecl("In", [scalar("a", 4), scalar("b", 4)]),
                               groupdecl("Out", [group("In", [cons("a", 3)]), scalar("c", 8)]),
                               packet("P", [group("Out", [cons("c", 9)]), scalar("t", 8)])], name="grp_nested"))
    # instantiation matrix: one group used by several declarations with no, scalar and enum constraints,
    # the same field bound to different values / tags, directly and through an outer group
    out.append(desc("little", [E8, groupdecl("G", [typedef("k", "E8"), scalar("n", 8)]),
                               packet("A", [group("G", [cons("k", "A")]), scalar("t", 8)]),
                               packet("B", [group("G", [cons("k", "B")]), scalar("t", 8)]),
                               packet("C", [group("G", [cons("n", 1)])]),
                               packet("D", [group("G", [cons("n", 2)])]),
                               packet("F", [group("G", [cons("k", "C"), cons("n", 2)])]),
                               packet("N", [scalar("h", 8), group("G")])], name="grp_matrix"))
    # (a group field may only constrain the group's own fields: E15 otherwise, so the inner bindings sit in the outer groups)
    # identifiers reused across nesting levels: the inner use binds them (they become anonymous fixed fields), the
    # outer group declares fields of the same names again, and the packet binds those
    out.append(desc("little", [E8, groupdecl("Header", [scalar("tag", 8), typedef("kind", "E8")]),
                               groupdecl("Frame", [group("Header", [cons("tag", 0x11), cons("kind", "A")]), scalar("tag", 8), typedef("kind", "E8")]),
                               packet("Message", [group("Frame", [cons("tag", 0x22), cons("kind", "B")]), scalar("seq", 8)]),
                               packet("Other", [group("Frame", [cons("tag", 0x33)])])], name="grp_nested_reuse"))
    out.append(desc("little", [E8, groupdecl("In", [typedef("k", "E8"), scalar("n", 8)]),
                               groupdecl("OutA", [scalar("q", 8), group("In", [cons("k", "A")])]),
                               groupdecl("OutB", [scalar("q", 8), group("In", [cons("k", "B")])]),
                               groupdecl("OutN", [scalar("q", 8), group("In", [cons("n", 7)])]),
                               packet("A", [group("OutA")]),
                               packet("B", [group("OutB", [cons("q", 5)])]),
                               packet("C", [group("OutA", [cons("q", 5)]), scalar("t", 8)]),
                               struct("S", [group("OutN", [cons("q", 5)])])], name="grp_matrix_nested"))
    return out


def schema_descs(tier):
    """extra shapes for the size annotations (no target compilation needed): checksums, unsized custom
    fields, nested typedef paddings, inherited sizes"""
    out = []
    out.append(desc("little", [checksum("CRC", 16), packet("P", [checksum_start("crc"), scalar("a", 16), typedef("crc", "CRC")])],
                    name="sch_checksum"))
    out.append(desc("little", [custom("UC", None), packet("P", [scalar("a", 8), typedef("u", "UC"), scalar("b", 8)])],
                    name="sch_unsized_custom"))
    out.append(desc("little", [custom("UC", None), packet("P", [count("u", 8), array("u", "UC")])], name="sch_unsized_custom_array"))
    out.append(desc("little", [SS, struct("W", [array("x", "SS", count=2), padding(5), scalar("k", 8)]),
                               packet("P", [typedef("w", "W"), array("ws", "W", count=3), array("wd", "W")])], name="sch_padded_nested"))
    out.append(desc("little", [packet("A", [scalar("a", 8), payload()]), packet("B", [scalar("b", 16), body()], parent="A"),
                               packet("C", [scalar("c", 24)], parent="B"), packet("D", [array("d", 8)], parent="B")],
                    name="sch_inherited"))
    out.append(desc("little", [DS, packet("P", [array("x", "DS", count=2), typedef("y", "DS"), array("z", "DS"), padding(7)])],
                    name="sch_dynamic_parts"))
    out.append(desc("little", [US, packet("P", [typedef("u", "US")]), packet("Q", [array("u", "US", count=2)])],
                    name="sch_unknown_parts"))
    out.append(desc("little", [E8, packet("P", [scalar("c", 1), reserved(7), typedef("e", "E8", cond=("c", 1)), scalar("o", 16, cond=("c", 0)),
                                                size("_payload_", 8), payload(mod=3)])], name="sch_optional_payload"))
    out.append(desc("little", [groupdecl("G", [scalar("g", 8), array("ga", 16, count=2)]), packet("P", [group("G"), scalar("t", 8)])],
                    name="sch_group"))
    return out


def c10_descs(tier):
    """descriptions at the edge of what the analyzer accepts: the compiler must answer each with
    target code or a diagnostic, never with a crash"""
    out = []
    D = lambda name, decls: out.append(desc("little", decls, name=name))
    D("x_typedef_group", [groupdecl("G", [scalar("a", 8)]), packet("P", [typedef("x", "G")])])
    D("x_enum_only_default", [enum("E", 8, [tother("X")]), packet("P", [typedef("e", "E")])])
    D("x_constraint_on_flag", [packet("A", [scalar("f", 1), reserved(7), scalar("x", 8, cond=("f", 1)), payload()]),
                               packet("B", [], parent="A", cons=[cons("f", 1)])])
    D("x_fixed_range_tag", [enum("E", 8, [tag("A", 0), trange("R", 1, 9)]), packet("P", [fixedenum("R", "E")])])
    D("x_payload_then_dynamic", [packet("P", [payload(), count("x", 8), array("x", 8)])])
    D("x_twins", [packet("A", [scalar("v", 8), payload()]), packet("B", [scalar("x", 8)], parent="A", cons=[cons("v", 1)]),
                  packet("C", [scalar("y", 8)], parent="A", cons=[cons("v", 1)])])
    D("x_enum_w65", [enum("E", 65, [tag("A", 1)]), packet("P", [typedef("e", "E"), reserved(7)])])
    D("x_scalar_w65", [packet("P", [scalar("a", 65), reserved(7)])])
    D("x_scalar_w128", [packet("P", [scalar("a", 128)])])
    D("x_group_72", [packet("P", [scalar("a", 4), scalar("b", 64), scalar("c", 4)])])
    D("x_reserved_0", [packet("P", [reserved(0), scalar("a", 8)])])
    D("x_scalar_0", [packet("P", [scalar("z", 0), scalar("a", 8)])])
    D("x_array_w0", [packet("P", [array("z", 0, count=2), scalar("a", 8)])])
    D("x_empty_struct_array", [struct("E", []), packet("P", [array("x", "E")])])
    D("x_empty_struct_array_cnt", [struct("E", []), packet("P", [count("x", 8), array("x", "E")])])
    D("x_size_after", [packet("P", [array("x", 8), size("x", 8)])])
    D("x_count_of_payload", [packet("P", [count("_payload_", 8), payload()])])
    D("x_elementsize_scalar", [packet("P", [elementsize("x", 8), array("x", 16)])])
    D("x_padding_zero", [packet("P", [array("x", 8, count=2), padding(0)])])
    D("x_padding_small", [packet("P", [array("x", 16, count=4), padding(2)])])
    D("x_optional_struct_cond", [SS, packet("P", [scalar("c", 1), reserved(7), typedef("s", "SS", cond=("c", 0)), payload()])])
    D("x_recursive_array", [struct("T", [scalar("k", 8), count("sub", 8), array("sub", "T")]), packet("P", [typedef("t", "T")])])
    D("x_keyword_ids", [packet("P", [scalar("type", 8), scalar("match", 8), scalar("self_", 8)])])
    # identifiers that are keywords or generated local names of a target language
    D("x_decl_named_if", [packet("if", [scalar("a", 8)])])
    D("x_field_named_if", [packet("P", [scalar("if", 8)])])
    D("x_tag_named_if", [enum("E", 8, [tag("if", 1), tag("B", 2)]), packet("P", [typedef("e", "E")])])
    D("x_field_named_o", [packet("P", [scalar("o", 8), scalar("other", 8)])])
    # field identifiers equal to locals of the generated parsers / serializers (two declarations, so that what is
    # generated for the second can depend on the first)
    D("x_field_named_chunk", [packet("Fragment", [scalar("chunk", 4), scalar("last", 1), scalar("fixed_value", 3)]),
                              enum("Status", 8, [tag("OK", 0), tag("KO", 1)]),
                              packet("Segment", [scalar("more", 1), scalar("chunk", 7), scalar("offset", 16)])])
    D("x_field_named_span", [packet("P", [scalar("span", 8), scalar("buf", 8), scalar("payload_size", 8), array("bytes", 8)])])
    D("x_fixed_w64", [packet("P", [fixed(0xffffffffffffffff, 64)])])
    D("x_tag_max", [enum("E", 64, [tag("A", 0xffffffffffffffff)]), packet("P", [fixedenum("A", "E")])])
    D("x_child_no_payload_parent", [packet("A", [scalar("v", 8)]), packet("B", [], parent="A", cons=[cons("v", 1)]),
                                    packet("C", [], parent="A", cons=[cons("v", 2)])])
    D("x_struct_with_children_field", [struct("S", [scalar("t", 8), payload()]), struct("S1", [scalar("x", 8)], parent="S", cons=[cons("t", 1)]),
                                       packet("P", [array("ss", "S1", count=2)])])
    D("x_custom_unsized", [custom("U", None), packet("P", [typedef("u", "U")])])
    D("x_checksum", [checksum("C", 8), packet("P", [checksum_start("c"), scalar("a", 8), typedef("c", "C")])])
    D("x_many_optionals", [packet("P", [scalar("c%d" % i, 1) for i in range(8)] + [scalar("o%d" % i, 8, cond=("c%d" % i, i % 2)) for i in range(8)])])
    D("x_deep_groups", [groupdecl("G1", [scalar("a", 8)]), groupdecl("G2", [group("G1")]), groupdecl("G3", [group("G2")]),
                        groupdecl("G4", [group("G3")]), packet("P", [group("G4")])])
    return out


def syntax_descs(tier):
    """token-level corner cases: identifiers that begin with keywords, large literals, every declaration kind"""
    out = []
    out.append(desc("big", [enum("enumx", 8, [tag("packet_a", 1), tag("ifx", 2), trange("struct_r", 3, 9, [tag("group1", 4)]), tother("test_")]),
                            struct("structure", [scalar("iffy", 8), typedef("enum_", "enumx")]),
                            packet("packets", [scalar("little_endian_packetsx", 8), typedef("s", "structure"), scalar("_x_", 8) if False else scalar("x_", 8)])],
                    name="syn_keywordish"))
    out.append(desc("little", [enum("E", 64, [tag("A", 0), tag("B", 0xffffffffffffffff), trange("R", 0x100, 0xffffffffffff, [tag("M", 0x8000000000)])]),
                               packet("P", [fixed(0xdeadbeefcafe, 48), typedef("e", "E"), fixedenum("B", "E")])], name="syn_bigints"))
    out.append(desc("little", [custom("CF", 24, "some function"), custom("UF", None, "other"), checksum("CS", 16, "crc 16"),
                               groupdecl("G", [scalar("g", 8), typedef("h", "CF")]),
                               packet("P", [checksum_start("c"), group("G", [cons("g", 200)]), typedef("u", "UF"), typedef("c", "CS")])],
                    name="syn_all_decls"))
    out.append(desc("little", [packet("A", [scalar("f", 1), reserved(7), scalar("o", 16, cond=("f", 1)), size("_payload_", 8), payload(mod=12)]),
                               packet("B", [count("x", 8), array("x", 8), padding(16), elementsize("y", 8), array("y", "A", count=2),
                                            array("z", 24, mod=3)], parent="A", cons=[cons("o", 7)]),
                               struct("S", [body()]), struct("T", [scalar("t", 8)], parent="S")], name="syn_all_fields"))
    return out


def build(tier="quick"):
    ds = []
    for f in (bitfield_descs, enum_descs, array_descs, payload_descs, optional_descs, struct_descs, custom_descs,
              inherit_descs, group_descs, chunk_descs, optional_matrix_descs, wide_chunk_descs, extent_position_descs):
        ds += f(tier)
    names = set()
    for d in ds:
        assert d["name"] not in names, d["name"]
        names.add(d["name"])
    return ds


if __name__ == "__main__":
    import json
    tier = sys.argv[1] if len(sys.argv) > 1 else "quick"
    for d in build(tier):
        print(json.dumps(d))
